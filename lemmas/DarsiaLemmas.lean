/-
Lemma layer (DESIGN.md §2.5, §8): facts of linear algebra that connect the function-level contracts of the
Wasserstein solvers (C04, C05, C08) to the statements of the properties.  No code of DarSIA is modelled here:
the hypotheses are exactly the contracts discharged (or checked per shape) on the real code:
  * `rows`      second block row of every linear system is  D δu − cᵀ δλ = r₂  with  r₂ = b − D u + cᵀ λ   (C04.rows)
  * `solve`     linear_solve returns a solution of the system it is given                                  (C08)
  * `incidence` every column of the divergence matrix sums to zero                                        (C06.div / C04.rows)
Checked by `lean` (Lean 4 + Mathlib) in tools/setup.sh and by the obligation C04.lemmas.
-/
import Mathlib.Algebra.Module.LinearMap.Defs
import Mathlib.Algebra.BigOperators.Group.Finset.Basic
import Mathlib.Algebra.BigOperators.GroupWithZero.Action
import Mathlib.Analysis.Normed.Group.Basic
import Mathlib.Analysis.Normed.Module.Basic
import Mathlib.Tactic.Abel
import Mathlib.Tactic.Linarith

open Finset

/-- mass_step: a Newton / Bregman step whose second block row is `D δu − δμ = b − D u + μ`
    (μ = cᵀ λ the multiplier term) re-establishes the discrete mass balance exactly. -/
theorem mass_step {V W : Type*} [AddCommGroup V] [AddCommGroup W]
    (D : V →+ W) (u du : V) (b mu dmu : W)
    (h : D du - dmu = b - D u + mu) : D (u + du) - (mu + dmu) = b := by
  have h2 : D du = b - D u + mu + dmu := by rw [← h]; abel
  rw [map_add, h2]; abel

/-- a full solve `D u − μ = b` (Bregman relaxation step, initial Darcy solve) trivially satisfies the balance. -/
theorem mass_solve {V W : Type*} [AddCommGroup V] [AddCommGroup W]
    (D : V →+ W) (u : V) (b mu : W) (h : D u - mu = b) (hmu : mu = 0) : D u = b := by
  rw [hmu, sub_zero] at h; exact h

/-- affine_mix: Anderson mixing `g − Σ γᵢ (aᵢ − cᵢ)` of mass-conserving iterates is mass conserving. -/
theorem affine_mix {ι V W : Type*} [AddCommGroup V] [AddCommGroup W] [Module ℝ V] [Module ℝ W]
    (D : V →ₗ[ℝ] W) (s : Finset ι) (γ : ι → ℝ) (a c : ι → V) (g : V) (b : W)
    (hg : D g = b) (ha : ∀ i ∈ s, D (a i) = b) (hc : ∀ i ∈ s, D (c i) = b) :
    D (g - ∑ i ∈ s, γ i • (a i - c i)) = b := by
  rw [map_sub, map_sum, hg]
  have : ∑ i ∈ s, D (γ i • (a i - c i)) = 0 := by
    apply Finset.sum_eq_zero
    intro i hi
    rw [map_smul, map_sub, ha i hi, hc i hi, sub_self, smul_zero]
  rw [this, sub_zero]

/-- incidence: if every column of the divergence matrix sums to zero, the total divergence of any flux vanishes. -/
theorem total_divergence_zero {C F : Type*} [Fintype C] [Fintype F]
    (M : C → F → ℝ) (hcol : ∀ f, ∑ c, M c f = 0) (u : F → ℝ) :
    ∑ c, ∑ f, M c f * u f = 0 := by
  rw [Finset.sum_comm]
  apply Finset.sum_eq_zero
  intro f _
  rw [← Finset.sum_mul, hcol f, zero_mul]

/-- multiplier: with zero column sums and a zero-mean mass source, the Lagrange multiplier of the pinned pressure vanishes:
    summing the balance rows  (D u)_c − λ [c = k] = b_c  over all cells gives  −λ = 0. -/
theorem multiplier_zero {C F : Type*} [Fintype C] [Fintype F] [DecidableEq C]
    (M : C → F → ℝ) (hcol : ∀ f, ∑ c, M c f = 0) (u : F → ℝ) (b : C → ℝ) (hb : ∑ c, b c = 0)
    (k : C) (lam : ℝ) (hrow : ∀ c, (∑ f, M c f * u f) - (if c = k then lam else 0) = b c) : lam = 0 := by
  have h1 : ∑ c, ((∑ f, M c f * u f) - (if c = k then lam else 0)) = 0 := by
    rw [Finset.sum_congr rfl (fun c _ => hrow c)]; exact hb
  rw [Finset.sum_sub_distrib, total_divergence_zero M hcol u, Finset.sum_ite_eq' Finset.univ k (fun _ => lam)] at h1
  simp at h1
  exact h1

/-- lower bound (Jensen / triangle inequality for a quadrature with non-negative weights): the weighted sum of the norms
    of the flux samples dominates the norm of the weighted sum.  With weights that integrate linear functions exactly the
    right-hand side is the norm of the mean flux of the cell, whose volume-weighted sum over the cells is the displacement
    of the first moment of the mass (divergence theorem with zero boundary flux). -/
theorem quadrature_lower_bound {ι E : Type*} [SeminormedAddCommGroup E] [NormedSpace ℝ E]
    (s : Finset ι) (w : ι → ℝ) (hw : ∀ i ∈ s, 0 ≤ w i) (v : ι → E) :
    ‖∑ i ∈ s, w i • v i‖ ≤ ∑ i ∈ s, w i * ‖v i‖ := by
  calc ‖∑ i ∈ s, w i • v i‖ ≤ ∑ i ∈ s, ‖w i • v i‖ := norm_sum_le _ _
    _ = ∑ i ∈ s, w i * ‖v i‖ := by
        apply Finset.sum_congr rfl
        intro i hi
        rw [norm_smul, Real.norm_of_nonneg (hw i hi)]

/-- any feasible flux costs at least the minimum: stated for completeness (the computed distance is the cost of a feasible flux). -/
theorem cost_ge_min {U : Type*} (cost : U → ℝ) (feasible : U → Prop) (m : ℝ)
    (hmin : ∀ u, feasible u → m ≤ cost u) (u : U) (hu : feasible u) : m ≤ cost u := hmin u hu

/-- schur: block Gauss elimination on the flux block.  `Winv` is a two-sided inverse of the (diagonal) flux block `W`;
    if `y` solves the flux-eliminated system and `u` is the recovered flux, `(u, y)` solves the full mixed system. -/
theorem schur_full_system {U P : Type*} [AddCommGroup U] [AddCommGroup P]
    (W Winv : U →+ U) (hW : ∀ x, W (Winv x) = x)
    (D : U →+ P) (Dt : P →+ U) (Cm : P →+ P) (r1 : U) (r2 y : P)
    (hy : Cm y + D (Winv (Dt y)) = r2 - D (Winv r1)) :
    W (Winv (r1 + Dt y)) - Dt y = r1 ∧ D (Winv (r1 + Dt y)) + Cm y = r2 := by
  constructor
  · rw [hW]; abel
  · rw [map_add, map_add]
    have : D (Winv (Dt y)) = r2 - D (Winv r1) - Cm y := by rw [← hy]; abel
    rw [this]; abel
