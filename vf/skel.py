"""Back end T: control-flow skeleton of a solver loop, AST -> verification conditions (DESIGN.md §2.3).

The function's source is re-read on every run.  Only the control flow (for / try / except / if / break / return), the loop
counter, the iteration bound and variables assigned from Boolean / integer literals or comparisons of tracked variables are
kept; every other statement is *havoc-or-raise*: it may raise (any statement containing a call, subscript, arithmetic or
attribute access) and it assigns an unknown value to its target.  This over-approximates the real function (callees cannot
assign the caller's locals), so a VC proved on the skeleton holds for the real code for every num_iter and every fault point.
Ghost state:  __met  (a break directly guarded by an `if` inside the try body = stopping criteria met),
              __failed (an exception was caught by the handler).
The loop is summarised by a generic iteration k with 0 <= k < N; tracked variables must keep their loop-head value on the
normal (continue) path — these inductiveness conditions are returned as side VCs.
"""
import ast
import inspect
import itertools
import textwrap

import z3


class Skel:
    """Tracks: loop counter, num_iter, literal-assigned flags; ghosts met/failed. Everything else havoc-or-raise."""
    def __init__(self, fn, loop_var="iter", bound="num_iter"):
        self.tree = ast.parse(textwrap.dedent(inspect.getsource(fn))).body[0]
        self.fresh = itertools.count()
        self.bound = z3.Int(bound); self.loop_var = loop_var; self.boundname = bound
    def havoc(self, sort="b"): 
        n=next(self.fresh); return z3.Bool(f"h{n}") if sort=="b" else z3.Int(f"h{n}")
    # ---- expressions over tracked vars; None = opaque
    def ev(self, e, st):
        if isinstance(e, ast.Constant) and isinstance(e.value,(bool,int)) and not isinstance(e.value,str):
            return z3.BoolVal(e.value) if isinstance(e.value,bool) else z3.IntVal(e.value)
        if isinstance(e, ast.Name): return st.get(e.id)
        if isinstance(e, ast.BinOp) and isinstance(e.op,(ast.Add,ast.Sub)):
            a,b=self.ev(e.left,st),self.ev(e.right,st)
            if a is None or b is None: return None
            return a+b if isinstance(e.op,ast.Add) else a-b
        if isinstance(e, ast.Compare) and len(e.ops)==1:
            a,b=self.ev(e.left,st),self.ev(e.comparators[0],st)
            if a is None or b is None: return None
            op=e.ops[0]
            return {ast.Lt:a<b,ast.LtE:a<=b,ast.Gt:a>b,ast.GtE:a>=b,ast.Eq:a==b,ast.NotEq:a!=b}[type(op)]
        if isinstance(e, ast.BoolOp):
            vs=[self.ev(v,st) for v in e.values]
            vs=[v if v is not None else self.havoc() for v in vs]
            return z3.And(*vs) if isinstance(e.op,ast.And) else z3.Or(*vs)
        if isinstance(e, ast.UnaryOp) and isinstance(e.op,ast.Not):
            v=self.ev(e.operand,st); return None if v is None else z3.Not(v)
        return None
    def may_raise(self, node):
        return any(isinstance(n,(ast.Call,ast.Subscript,ast.BinOp,ast.Attribute)) for n in ast.walk(node))
    # ---- statements: generator of (kind, state, pc)
    def block(self, stmts, st, pc, in_try_body):
        if not stmts: yield ("normal", st, pc); return
        head, rest = stmts[0], stmts[1:]
        for kind, st2, pc2 in self.stmt(head, st, pc, in_try_body):
            if kind=="normal": yield from self.block(rest, st2, pc2, in_try_body)
            else: yield (kind, st2, pc2)
    def stmt(self, s, st, pc, in_try):
        if isinstance(s,(ast.Expr,ast.Assign,ast.AugAssign,ast.AnnAssign,ast.With)) and not isinstance(s, ast.With):
            if self.may_raise(s): yield ("raise", st, pc)
            st=dict(st)
            if isinstance(s,ast.Assign) and len(s.targets)==1 and isinstance(s.targets[0],ast.Name):
                name=s.targets[0].id; v=self.ev(s.value,st)
                if v is not None: st[name]=v
                elif name=="info" and isinstance(s.value,ast.Dict):
                    for k,val in zip(s.value.keys,s.value.values):
                        if isinstance(k,ast.Constant) and k.value=="converged":
                            c=self.ev(val,st); st["__converged"]= c if c is not None else self.havoc()
                elif name == self.boundname: pass      # re-assigned from options: still "some integer N"
                elif name in st: st.pop(name,None)
            yield ("normal", st, pc); return
        if isinstance(s, ast.With):
            yield from self.block(s.body, st, pc, in_try); return
        if isinstance(s, ast.If):
            c=self.ev(s.test,st); opaque=c is None
            if opaque: c=self.havoc()
            if self.may_raise(s.test): yield ("raise", st, pc)
            # ghost: a break directly guarded by this test inside the try body means "criteria met"
            for kind,st2,pc2 in self.block(s.body, st, pc+[c], in_try):
                if kind=="break" and in_try: st2=dict(st2); st2["__met"]=z3.BoolVal(True)
                yield (kind,st2,pc2)
            yield from self.block(s.orelse, st, pc+[z3.Not(c)], in_try); return
        if isinstance(s, ast.Break): yield ("break", st, pc); return
        if isinstance(s, ast.Return):
            st=dict(st)
            # early return with literal dict
            if isinstance(s.value,ast.Tuple):
                for el in s.value.elts:
                    if isinstance(el,ast.Name) and el.id=="info" and "__converged" not in st: st["__converged"]=self.havoc()
            yield ("return", st, pc); return
        if isinstance(s, ast.Try):
            for kind,st2,pc2 in self.block(s.body, st, pc, True):
                if kind=="raise":
                    st3=dict(st2); st3["__failed"]=z3.BoolVal(True)
                    for h in s.handlers: yield from self.block(h.body, st3, pc2, False)
                else: yield (kind,st2,pc2)
            return
        if isinstance(s, ast.For) and isinstance(s.target,ast.Name) and s.target.id==self.loop_var:
            # loop summary: flags keep their loop-head values while iterating (checked inductively),
            # exit either by exhaustion or from a generic iteration k
            k=z3.Int(f"k{next(self.fresh)}"); N=self.bound
            head=dict(st); head[self.loop_var]=k
            exits=[]
            for kind,st2,pc2 in self.block(s.body, head, pc+[0<=k,k<N], False):
                if kind=="normal":   # inductiveness: tracked flags unchanged
                    for name in st:
                        if name.startswith("__") or name==self.loop_var: continue
                        a,b=st.get(name),st2.get(name)
                        if a is not None and (b is None or not z3.eq(a,b)):
                            self.side.append((pc2, a==b if b is not None else z3.BoolVal(False), f"loop keeps {name}"))
                elif kind=="break": exits.append(("normal",st2,pc2))
                else: exits.append((kind,st2,pc2))
            yield from exits
            ex=dict(st); 
            # exhausted: last value N-1 if N>=1, else loop var keeps previous binding (or unbound)
            ex1=dict(ex); ex1[self.loop_var]=N-1; yield ("normal", ex1, pc+[N>=1])
            ex0=dict(ex); 
            if self.loop_var not in st: ex0["__unbound_"+self.loop_var]=True
            yield ("normal", ex0, pc+[N<=0]); return
        if isinstance(s,(ast.For,ast.While)):   # other loops: havoc
            yield ("raise", st, pc); yield ("normal", st, pc); return
        if isinstance(s,(ast.FunctionDef,ast.Pass,ast.Import,ast.ImportFrom)): yield ("normal",st,pc); return
        yield ("raise", st, pc); yield ("normal", st, pc)
    def run(self):
        self.side=[]
        st={self.boundname:self.bound,"__met":z3.BoolVal(False),"__failed":z3.BoolVal(False)}
        out=[]
        for kind,st2,pc in self.block(self.tree.body, st, [], False):
            if kind=="return": out.append((st2,pc))
        return out



def converged_flag_vcs(fn, loop_var="iter", bound="num_iter"):
    """Returns (vcs, stats): vcs = list of (label, z3 formula that must be valid)."""
    sk = Skel(fn, loop_var, bound)
    rets = sk.run()
    vcs = []
    unbound = 0
    for n, (st, pc) in enumerate(rets):
        if st.get("__unbound_" + loop_var):
            unbound += 1
            s = z3.Solver()
            s.add(*pc)
            vcs.append((f"return path {n}: loop variable '{loop_var}' is bound when used after the loop", z3.Not(z3.And(*pc)) if pc else z3.BoolVal(False)))
            continue
        c = st.get("__converged")
        if c is None:
            continue
        goal = z3.Implies(z3.And(*pc) if pc else z3.BoolVal(True), z3.Implies(c, z3.And(st["__met"], z3.Not(st["__failed"]))))
        vcs.append((f"return path {n}: info['converged'] implies stopping criteria met and no inner step failed", goal))
    for k, (pc, cond, label) in enumerate(sk.side):
        vcs.append((f"loop invariant {k}: {label}", z3.Implies(z3.And(*pc) if pc else z3.BoolVal(True), cond)))
    return vcs, {"return_paths": len(rets), "unbound_paths": unbound, "side": len(sk.side)}
