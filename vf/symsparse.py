"""SymCSC: compressed-sparse model of scipy.sparse matrices that can carry z3-backed symbols in `.data` (rewrite R3: the names
sps.csc_matrix / sps.diags / sps.bmat / sps.linalg.splu of the instrumented modules are bound to the factories below).

Assumed contract of scipy.sparse that the model encodes (validated against the installed scipy by the bounded obligation
C08.dep_sparse on random matrices with forced zeros and cancellations):
  * value semantics of  +  -  unary -  scalar *  @ / dot / spmatrix `*`  .T  diagonal()  slicing  diags  bmat  toarray;
  * storage: `.data / .indices / .indptr` hold exactly one entry per position of the result pattern; the pattern of A + B, A - B
    and A @ B is the set of positions whose computed value is not exactly zero (scipy's csr_binop / csr_matmat prune exact zeros),
    diags() stores the non-zero diagonal entries, bmat / the (data, indices, indptr) and (data, (row, col)) constructors / slicing
    / transpose / scalar multiplication keep stored entries (explicit zeros included);
  * format bookkeeping (csc / csr) as observed: .T flips the format, csc @ x -> csc, csr @ x -> csr, dia @ x -> csr,
    A + B -> format of A, slicing and copy keep the format;
  * the ORDER of the stored entries inside a column (row) is modelled as sorted; scipy may store them unsorted.  Code whose result
    depends on that order is outside the model (the concrete companions run the real scipy).
`value is exactly zero` on a symbolic entry is a path decision (SymBool.__bool__): both outcomes are explored when feasible.
"""
from __future__ import annotations

import numpy as np

from .sym import PathCtx, Sym, Unsupported, is_sym, lift
from .symnp import Mode, _has_sym


def _is_zero(v):
    if is_sym(v):
        return not bool(v != 0)
    return v == 0


_ALIVE = []


def _term_key(v):
    """identity of a value for memoisation: z3 AST id of a symbolic term (after simplification), the number itself otherwise"""
    if is_sym(v):
        import z3
        t = z3.simplify(lift(v))
        _ALIVE.append(t)            # keep the AST alive: z3 hash-conses structurally equal terms only among live ones, and ids are recycled
        return ("t", t.get_id())
    return ("n", float(v))


def _scipy():
    import scipy.sparse as sps
    return sps


class SymCSC:
    __array_priority__ = 1000

    def __init__(self, data, indices, indptr, shape, fmt="csc"):
        self.data = np.asarray(data, dtype=object) if not (isinstance(data, np.ndarray) and data.dtype == object) else data
        self.indices = np.asarray(indices, dtype=np.int64)
        self.indptr = np.asarray(indptr, dtype=np.int64)
        self.shape = (int(shape[0]), int(shape[1]))
        self.format = fmt

    # ---- construction ------------------------------------------------------------------------------------------------
    @staticmethod
    def from_entries(entries, shape, fmt="csc", prune=False):
        """entries: dict (i, j) -> value."""
        if prune:
            entries = {k: v for k, v in entries.items() if not _is_zero(v)}
        major = 1 if fmt == "csc" else 0
        keys = sorted(entries, key=(lambda k: (k[1], k[0])) if fmt == "csc" else (lambda k: (k[0], k[1])))
        n_major = shape[major]
        indptr = np.zeros(n_major + 1, dtype=np.int64)
        for k in keys:
            indptr[k[major] + 1] += 1
        indptr = np.cumsum(indptr)
        data = np.empty(len(keys), dtype=object)
        for n, k in enumerate(keys):
            data[n] = entries[k]
        indices = np.array([k[1 - major] for k in keys], dtype=np.int64)
        return SymCSC(data, indices, indptr, shape, fmt)

    @staticmethod
    def from_scipy(m, fmt=None):
        sps = _scipy()
        if fmt is None:
            fmt = "csr" if m.format == "csr" else "csc"
        c = m.tocoo()
        ent = {}
        for i, j, v in zip(c.row, c.col, c.data):
            ent[(int(i), int(j))] = ent.get((int(i), int(j)), 0.0) + float(v)
        return SymCSC.from_entries(ent, m.shape, fmt)

    @staticmethod
    def coerce(x):
        if isinstance(x, SymCSC):
            return x
        sps = _scipy()
        if sps.issparse(x):
            return SymCSC.from_scipy(x)
        raise Unsupported(f"SymCSC: cannot coerce {type(x).__name__}")

    def entries(self):
        out = {}
        for p in range(len(self.indptr) - 1):
            for q in range(int(self.indptr[p]), int(self.indptr[p + 1])):
                k = (int(self.indices[q]), p) if self.format == "csc" else (p, int(self.indices[q]))
                out[k] = (out[k] + self.data[q]) if k in out else self.data[q]
        return out

    def to_scipy(self):
        sps = _scipy()
        if _has_sym(self.data):
            raise Unsupported("SymCSC.to_scipy with symbolic data")
        cls = sps.csc_matrix if self.format == "csc" else sps.csr_matrix
        return cls((self.data.astype(float), self.indices.copy(), self.indptr.copy()), shape=self.shape)

    # ---- scipy-like surface ------------------------------------------------------------------------------------------
    def __vf_isinstance__(self, T):
        sps = _scipy()
        ts = T if isinstance(T, tuple) else (T,)
        for t in ts:
            if getattr(t, "_vf_models", None) == "csc_matrix":        # the R3 factory bound to the name sps.csc_matrix
                if self.format == "csc":
                    return True
            elif t in (sps.csc_matrix, getattr(sps, "csc_array", None)):
                if self.format == "csc":
                    return True
            elif t in (sps.csr_matrix, getattr(sps, "csr_array", None)):
                if self.format == "csr":
                    return True
            elif t in (sps.spmatrix, getattr(sps, "sparray", None), object):
                return True
        return False

    @property
    def nnz(self):
        return int(len(self.data))

    @property
    def ndim(self):
        return 2

    @property
    def dtype(self):
        return np.dtype(float)

    def copy(self):
        return SymCSC(self.data.copy(), self.indices.copy(), self.indptr.copy(), self.shape, self.format)

    def asformat(self, fmt, copy=False):
        if fmt in (None, self.format):
            return self
        if fmt in ("csc", "csr"):
            return SymCSC.from_entries(self.entries(), self.shape, fmt)
        raise Unsupported(f"SymCSC.asformat({fmt})")

    def tocsc(self, copy=False):
        return self.asformat("csc")

    def tocsr(self, copy=False):
        return self.asformat("csr")

    def toarray(self, *a, **k):
        ent = self.entries()
        sym = any(is_sym(v) for v in ent.values())
        out = np.empty(self.shape, dtype=object)
        out[...] = 0.0
        for (i, j), v in ent.items():
            out[i, j] = v
        return out if sym or Mode.symbolic else out.astype(float)

    todense = toarray

    @property
    def T(self):
        return SymCSC(self.data.copy(), self.indices.copy(), self.indptr.copy(), (self.shape[1], self.shape[0]),
                      "csr" if self.format == "csc" else "csc")

    def transpose(self, *a, **k):
        return self.T

    def diagonal(self, k=0):
        if k != 0:
            raise Unsupported("SymCSC.diagonal(k != 0)")
        ent = self.entries()
        n = min(self.shape)
        out = np.empty(n, dtype=object)
        for i in range(n):
            out[i] = ent.get((i, i), 0.0)
        return out if _has_sym(out) or Mode.symbolic else out.astype(float)

    def sum(self, axis=None):
        a = self.toarray()
        return np.sum(a, axis=axis)

    def _binop(self, o, sign):
        o = SymCSC.coerce(o)
        if o.shape != self.shape:
            raise ValueError("inconsistent shapes")
        ent = dict(self.entries())
        for k, v in o.entries().items():
            ent[k] = (ent[k] + sign * v) if k in ent else sign * v
        return SymCSC.from_entries(ent, self.shape, self.format, prune=True)

    def __add__(self, o):
        if np.ndim(o) == 0 and not isinstance(o, SymCSC) and not _scipy().issparse(o):
            if not is_sym(o) and o == 0:
                return self.copy()
            raise NotImplementedError("adding a nonzero scalar to a sparse matrix is not supported")
        return self._binop(o, 1)

    def __radd__(self, o):
        return self.__add__(o)

    def __sub__(self, o):
        return self._binop(o, -1)

    def __rsub__(self, o):
        return SymCSC.coerce(o)._binop(self, -1)

    def __neg__(self):
        return SymCSC(-self.data, self.indices.copy(), self.indptr.copy(), self.shape, self.format)

    def _scale(self, s):
        return SymCSC(self.data * s, self.indices.copy(), self.indptr.copy(), self.shape, self.format)

    def _matvec(self, x):
        x = np.asarray(x)
        if x.ndim == 2 and x.shape[1] == 1:
            return self._matvec(x[:, 0]).reshape(-1, 1)
        if x.ndim != 1:
            return self.toarray().dot(x)
        if x.shape[0] != self.shape[1]:
            raise ValueError("dimension mismatch")
        sym = _has_sym(x) or _has_sym(self.data) or Mode.symbolic
        out = np.empty(self.shape[0], dtype=object)
        out[...] = 0.0
        for (i, j), v in self.entries().items():
            out[i] = out[i] + v * x[j]
        return out if sym else out.astype(float)

    def _matmat(self, o):
        o = SymCSC.coerce(o)
        if self.shape[1] != o.shape[0]:
            raise ValueError("dimension mismatch")
        rows = {}
        for (k, j), v in o.entries().items():
            rows.setdefault(k, []).append((j, v))
        ent = {}
        for (i, k), a in self.entries().items():
            for j, b in rows.get(k, ()):
                ent[(i, j)] = (ent[(i, j)] + a * b) if (i, j) in ent else a * b
        fmt = self.format if self.format in ("csc", "csr") else "csr"
        return SymCSC.from_entries(ent, (self.shape[0], o.shape[1]), fmt, prune=True)

    def dot(self, o):
        if isinstance(o, SymCSC) or _scipy().issparse(o):
            return self._matmat(o)
        if np.ndim(o) == 0:
            return self._scale(o)
        return self._matvec(o)

    __matmul__ = dot

    def __mul__(self, o):       # spmatrix semantics: * is the matrix product
        return self.dot(o)

    def __rmul__(self, o):
        if np.ndim(o) == 0:
            return self._scale(o)
        return self.__rmatmul__(o)

    def __rmatmul__(self, o):
        if _scipy().issparse(o):
            return SymCSC.coerce(o)._matmat(self)
        o = np.asarray(o)
        return self.T._matvec(o) if o.ndim == 1 else o.dot(self.toarray())

    def __truediv__(self, s):
        if np.ndim(s) != 0:
            raise Unsupported("SymCSC / non-scalar")
        return SymCSC(self.data / s, self.indices.copy(), self.indptr.copy(), self.shape, self.format)

    def multiply(self, o):
        if np.ndim(o) == 0:
            return self._scale(o)
        raise Unsupported("SymCSC.multiply(non-scalar)")

    @staticmethod
    def _axis_sel(k, n):
        if isinstance(k, slice):
            return list(range(*k.indices(n))), False
        if isinstance(k, (int, np.integer)):
            return [int(k) % n if k < 0 else int(k)], True
        k = np.asarray(k)
        if k.dtype == bool:
            return [int(i) for i in np.nonzero(k)[0]], False
        return [int(i) + (n if i < 0 else 0) for i in k.ravel()], False

    def __getitem__(self, key):
        if not isinstance(key, tuple):
            key = (key, slice(None))
        ri, rs = self._axis_sel(key[0], self.shape[0])
        ci, cs = self._axis_sel(key[1], self.shape[1])
        ent = self.entries()
        if rs and cs:
            return ent.get((ri[0], ci[0]), 0.0)
        rpos, cpos = {}, {}
        for n, i in enumerate(ri):
            rpos.setdefault(i, []).append(n)
        for n, j in enumerate(ci):
            cpos.setdefault(j, []).append(n)
        out = {}
        for (i, j), v in ent.items():
            for a in rpos.get(i, ()):
                for b in cpos.get(j, ()):
                    out[(a, b)] = v
        return SymCSC.from_entries(out, (len(ri), len(ci)), self.format)

    def __setitem__(self, key, value):
        raise Unsupported("SymCSC item assignment")

    def eliminate_zeros(self):
        new = SymCSC.from_entries(self.entries(), self.shape, self.format, prune=True)
        self.data, self.indices, self.indptr = new.data, new.indices, new.indptr

    def __getattr__(self, name):
        if name.startswith("__"):
            raise AttributeError(name)
        raise Unsupported(f"SymCSC has no model of .{name}")

    def __repr__(self):
        return f"<SymCSC {self.shape} {self.format} nnz={self.nnz}>"


# ---- factories bound to the names of scipy.sparse inside the instrumented modules (R3) ----------------------------------

NAME = ("scipy.sparse csc/csr/dia matrices: value semantics of + - @ .T diagonal slicing diags bmat; stored pattern = exact "
        "non-zeros after + / @ / diags, entry order inside a column not modelled (vf/symsparse.py)")


def csc_matrix_factory(ctx):
    def csc_matrix(arg, shape=None, dtype=None, copy=False, **k):
        ctx.stub_used(NAME)
        sps = _scipy()
        if isinstance(arg, SymCSC):
            return arg.asformat("csc")
        if sps.issparse(arg):
            return SymCSC.from_scipy(arg, "csc")
        if isinstance(arg, tuple) and len(arg) == 3:
            data, indices, indptr = arg
            n = len(indptr) - 1
            if shape is None:
                shape = ((int(np.max(indices)) + 1) if len(indices) else 0, n)
            return SymCSC(np.array(data, dtype=object), np.array(indices), np.array(indptr), shape, "csc")
        if isinstance(arg, tuple) and len(arg) == 2 and isinstance(arg[1], tuple):
            data, (row, col) = arg
            ent = {}
            for d, r, c in zip(list(np.asarray(data).flat), list(np.asarray(row).flat), list(np.asarray(col).flat)):
                kk = (int(r), int(c))
                ent[kk] = (ent[kk] + d) if kk in ent else d      # duplicates are summed
            if shape is None:
                shape = (int(np.max(row)) + 1, int(np.max(col)) + 1)
            return SymCSC.from_entries(ent, shape, "csc")
        if isinstance(arg, tuple) and len(arg) == 2 and all(isinstance(v, (int, np.integer)) for v in arg):
            return SymCSC.from_entries({}, arg, "csc")
        a = np.asarray(arg)
        if a.ndim == 2:
            ent = {(i, j): a[i, j] for i in range(a.shape[0]) for j in range(a.shape[1]) if not _is_zero(a[i, j])}
            return SymCSC.from_entries(ent, a.shape, "csc")
        raise Unsupported("csc_matrix model: unsupported constructor form")
    csc_matrix._vf_models = "csc_matrix"
    return csc_matrix


def diags_factory(ctx):
    def diags(v, offsets=0, shape=None, format=None, dtype=None):
        ctx.stub_used(NAME)
        if np.ndim(offsets) != 0 or offsets != 0:
            raise Unsupported("diags model: only the main diagonal")
        v = np.asarray(v)
        if v.ndim != 1:
            raise Unsupported("diags model: one diagonal")
        n = len(v)
        ent = {(i, i): v[i] for i in range(n) if not _is_zero(v[i])}
        # a dia matrix multiplies like a csr matrix (dia @ x -> csr); with format='csc' scipy converts first
        return SymCSC.from_entries(ent, shape or (n, n), "csc" if format == "csc" else "csr")
    return diags


def bmat_factory(ctx):
    def bmat(blocks, format=None, dtype=None):
        ctx.stub_used(NAME)
        nr, nc = len(blocks), len(blocks[0])
        B = [[None if b is None else SymCSC.coerce(b) for b in row] for row in blocks]
        hs, ws = [None] * nr, [None] * nc
        for i in range(nr):
            for j in range(nc):
                if B[i][j] is not None:
                    h, w = B[i][j].shape
                    if hs[i] not in (None, h) or ws[j] not in (None, w):
                        raise ValueError("blocks have incompatible dimensions")
                    hs[i], ws[j] = h, w
        if None in hs or None in ws:
            raise ValueError("bmat: a block row / column is entirely None")
        ro, co = np.concatenate([[0], np.cumsum(hs)]), np.concatenate([[0], np.cumsum(ws)])
        ent = {}
        for i in range(nr):
            for j in range(nc):
                if B[i][j] is not None:
                    for (a, b), v in B[i][j].entries().items():
                        ent[(int(ro[i]) + a, int(co[j]) + b)] = v
        fmt = format if format in ("csc", "csr") else "csc"
        return SymCSC.from_entries(ent, (int(ro[-1]), int(co[-1])), fmt)
    return bmat


class LU:
    """splu(M): assumed contract  M @ solve(b) == b  (a direct solve; exact over the reals)."""

    def __init__(self, ctx, matrix, label):
        self.ctx, self.matrix, self.label = ctx, SymCSC.coerce(matrix).copy(), label      # the factorisation is a snapshot
        self.shape = self.matrix.shape
        ctx.__dict__.setdefault("lu_setups", []).append(self.matrix)

    def solve(self, b, *a, **k):
        import z3
        b = np.asarray(b)
        M = self.matrix
        if not _has_sym(M.data) and not _has_sym(b):
            import scipy.sparse.linalg as spl
            return spl.splu(M.to_scipy().tocsc()).solve(np.asarray(b, dtype=float))
        self.ctx.stub_used(self.label)
        pc = PathCtx.cur
        n = M.shape[1]
        # a factorisation is a FUNCTION of (matrix, right-hand side): syntactically identical systems get the very same solution symbols
        # (relational obligations - used object vs fresh object - rely on this; z3 hash-conses structurally equal terms)
        key = (M.shape, M.indices.tobytes(), M.indptr.tobytes(), tuple(_term_key(v) for v in M.data), tuple(_term_key(v) for v in b))
        memo = self.ctx.__dict__.setdefault("lu_memo", {})
        if memo.get("__pc") is not pc:
            memo.clear()
            memo["__pc"] = pc
        if key in memo:
            return memo[key].copy()
        k = self.ctx.__dict__.setdefault("lu_solves", 0)
        self.ctx.__dict__["lu_solves"] = k + 1
        x = np.array([self.ctx.real(f"lu{k}_{i}", sample=(-1.0, 1.0)) for i in range(n)], dtype=object)
        self.ctx.solved.update(f"lu{k}_{i}" for i in range(n))
        res = M._matvec(x)
        from .core import _eq_scalar
        for i in range(M.shape[0]):
            c = _eq_scalar(res[i], b[i])
            pc.add(c if isinstance(c, z3.BoolRef) else z3.BoolVal(bool(c)))
        memo[key] = x.copy()
        return x


SPLU_NAME = "scipy.sparse.linalg.splu(M).solve(b) returns x with M x = b exactly (direct solver, M nonsingular)"


def splu_factory(ctx):
    def splu(matrix, *a, **k):
        return LU(ctx, matrix, SPLU_NAME)
    return splu


def stubs(ctx_factories=True):
    """dotted names as they appear in darsia.measure.wasserstein / darsia.utils.fv"""
    return {"sps.csc_matrix": csc_matrix_factory, "sps.diags": diags_factory, "sps.bmat": bmat_factory,
            "sps.linalg.splu": splu_factory}
