"""Runs the obligations of one property: proof back ends, concrete companions, replay, known findings, evidence."""
from __future__ import annotations

import contextlib
import importlib
import numpy as np
import io
import json
import multiprocessing as mp
import os
import random
import sys
import time
import traceback
import warnings
from fractions import Fraction
from pathlib import Path

ROOT = Path(__file__).resolve().parent.parent
EXIT_HELD, EXIT_VIOLATION, EXIT_UNDECIDED, EXIT_CRASH = 0, 1, 2, 3

GLOBAL_ASSUMPTIONS = [
    "A1 Python/numpy floats are modelled as mathematical reals (no rounding, overflow, NaN)",
    "A2 Python/numpy integers are modelled as mathematical integers",
    "A3 numpy object-dtype element-wise, slicing, reshaping and reduction semantics equal its float semantics over the reals",
    "A4 numpy basic-slice clipping semantics for ShapeOnly array stand-ins",
    "A8 np.isclose / np.allclose / math.isclose on symbolic operands are idealised to equality over the reals (defects confined to the tolerance of such a guard are left to the concrete companions)",
    "A6 CPython 3.12, z3 5.1, sympy, numpy are correct",
    "A7 the instrumenter's rewrites (R1 astype, R2 np/math/builtin shims, R3 stubs, R5 comparisons) preserve behaviour on non-symbolic data (concrete companion runs exercise the real uninstrumented code)",
]


def _load_contracts(prop):
    from . import core
    import contracts  # noqa: F401
    for f in sorted((ROOT / "contracts").glob(f"{prop}_*.py")):
        importlib.import_module(f"contracts.{f.stem}")
    return core.REGISTRY.get(prop, [])


# ---- model -> concrete values ---------------------------------------------------------------------------

def _model_values(model, inputs):
    import z3
    vals = {}
    assigned = {d.name() for d in model.decls()}
    for name, var in inputs.items():
        if name not in assigned:
            continue      # unconstrained by the counterexample: the replay draws a random value (distinct tokens)
        v = model.eval(var, model_completion=True)
        if z3.is_bool(v):
            vals[name] = bool(z3.is_true(v))
        elif z3.is_int_value(v):
            vals[name] = v.as_long()
        elif z3.is_rational_value(v):
            fr = Fraction(v.numerator_as_long(), v.denominator_as_long())
            vals[name] = str(fr)
        elif z3.is_algebraic_value(v):
            a = v.approx(30)
            vals[name] = str(Fraction(a.numerator_as_long(), a.denominator_as_long()))
        else:
            vals[name] = str(v)
    return vals


def _is_equation(h):
    import z3
    if z3.is_eq(h) and not z3.is_bool(h.children()[0]):
        return True
    if z3.is_and(h):
        return any(_is_equation(c) for c in h.children())
    return False


def _solver(timeout_ms):
    import z3
    s = z3.Solver()
    s.set("timeout", timeout_ms)
    return s


# ---- one obligation instance in a worker -----------------------------------------------------------------

def _run_conc(obl, case, values, seed, tier, max_tries=60):
    """Concrete run of the contract on the REAL (uninstrumented) functions.  Returns dict."""
    from .core import Ctx, Reject, Tol
    Tol.rel, Tol.abs = (obl.tol if isinstance(obl.tol, tuple) else (obl.tol, obl.tol)) if obl.tol else (1e-8, 1e-9)   # float tolerance of the concrete evaluator
    rng = random.Random(seed)
    tries = 0
    while True:
        ctx = Ctx("conc", values=values, rng=rng, tier=tier)
        tries += 1
        try:
            with warnings.catch_warnings(), contextlib.redirect_stdout(io.StringIO()):
                warnings.simplefilter("ignore")
                obl.fn(ctx, **case)
        except Reject:
            if values is not None:
                return {"status": "rejected", "inputs": _jsonable(ctx.inputs)}
            if tries >= max_tries:
                return {"status": "rejected", "inputs": {}}
            continue
        except Exception as e:
            return {"status": "raised", "exc": f"{type(e).__name__}: {e}", "tb": traceback.format_exc(limit=8),
                    "inputs": _jsonable(ctx.inputs), "failed": ["<no exception>"],
                    "witnesses": {k: bool(v) for k, v in ctx.witnesses.items() if isinstance(v, (bool, np.bool_))}}
        def _holds(c):
            # clauses of T / L obligations are z3 formulas also in the concrete evaluator: decide validity under the assumptions
            try:
                import z3
                if isinstance(c, z3.BoolRef):
                    sv = z3.Solver()
                    sv.set("timeout", 30000)
                    sv.add(*[p for p in ctx.pre if isinstance(p, z3.BoolRef)])
                    sv.add(z3.Not(c))
                    return sv.check() == z3.unsat
            except ImportError:
                pass
            return bool(c)
        failed = [lab for lab, c in ctx.posts if not _holds(c)]
        wit = {k: bool(v) for k, v in ctx.witnesses.items()}
        return {"status": "fail" if failed else "pass", "failed": failed, "inputs": _jsonable(ctx.inputs),
                "witnesses": wit, "nposts": len(ctx.posts), "evals": max(1, ctx.evals)}


def _jsonable(d):
    out = {}
    for k, v in d.items():
        if isinstance(v, (bool, int, float, str)) or v is None:
            out[k] = v
        else:
            try:
                out[k] = float(v)
            except Exception:
                out[k] = str(v)
    return out


def _prove_instance(obl, case, tier, known_witnesses, timeout_ms=60000):
    """Symbolic run: explore all paths of the instrumented real code, discharge pre ∧ path ⇒ post."""
    import z3
    from . import instr, symnp
    from .core import Ctx, Reject
    from .sym import PathBudget, Unsupported, explore

    res = {"paths": 0, "vcs": 0, "solver_s": 0.0, "labels": []}
    ctx = Ctx("sym", tier=tier)
    stubs = {k: f(ctx) for k, f in obl.stubs.items()}
    done, failed = instr.instrument_modules(obl.mods, stubs, skip=obl.skip)
    res["instrumented"] = len(done)
    res["instrument_failed"] = failed[:20]
    symnp.Mode.symbolic = True

    def run_once():
        ctx.reset()
        try:
            with warnings.catch_warnings(), contextlib.redirect_stdout(io.StringIO()):
                warnings.simplefilter("ignore")
                obl.fn(ctx, **case)
            exc = None
        except Reject:
            exc = "reject"
        except (Unsupported, PathBudget):
            raise
        except Exception as e:
            exc = e
            ctx._tb = traceback.format_exc(limit=10)
        return (list(ctx.pre), list(ctx.posts), dict(ctx.witnesses), dict(ctx.inputs), exc, list(ctx.used_stubs),
                getattr(ctx, "_tb", ""), dict(ctx.ranges), set(ctx.solved))

    budget = obl.budget or {}
    timeout_ms = budget.get("timeout_ms", timeout_ms)
    from .sym import PathCtx
    PathCtx.decide_timeout_ms = budget.get("decide_ms", 20000)
    if "arith_solver" in budget:
        # 2 = z3's legacy arithmetic solver: weaker on floor / mixed integer reasoning but free of the nla::core monomial patching of the
        # default solver (6), which on bilinear systems with large rationals can run for minutes without polling its timeout
        z3.set_param("smt.arith.solver", int(budget["arith_solver"]))
    try:
        paths = explore(run_once, max_paths=budget.get("paths", 256))
    except Unsupported as e:
        res.update(verdict="undecided", reason=f"Unsupported: {e}", tb=traceback.format_exc(limit=6))
        return res
    except PathBudget as e:
        res.update(verdict="undecided", reason=f"PathBudget: {e}")
        return res
    finally:
        symnp.Mode.symbolic = False
    res["paths"] = len(paths)
    stubs_used = set()
    covered = False
    known_hit = []
    outside_feasible = False
    t0 = time.time()
    for p in paths:
        pre, posts, wits, inputs, exc, used, tb, ranges, solved = p.value if p.value is not None else ([], [], {}, {}, p.exc, [], "", {}, set())
        stubs_used.update(used)
        if exc == "reject":
            continue
        hyps = list(pre) + list(p.pc)
        s = _solver(timeout_ms)
        s.add(*hyps)
        s.set("timeout", min(timeout_ms, 5000))
        r = s.check()
        s.set("timeout", timeout_ms)
        if r == z3.unsat:
            continue   # infeasible path
        if r != z3.sat and not covered:
            # satisfiability of pre ∧ path is nonlinear: show it by specialisation - sample the declared parameters inside their
            # declared ranges, leave the stub outputs that are determined by equations free (the rest is linear) and ask again
            if _cover_by_sampling(hyps, inputs, ranges, solved):
                r = z3.sat
                res["cover_by_sampling"] = res.get("cover_by_sampling", 0) + 1
        covered = covered or r == z3.sat
        if known_witnesses and "*" not in known_witnesses:
            wl0 = [wits[w] if isinstance(wits[w], z3.BoolRef) else z3.BoolVal(bool(wits[w])) for w in known_witnesses if w in wits]
            s.push(); s.add(z3.Not(z3.Or(*wl0)) if wl0 else z3.BoolVal(True))
            outside_feasible = outside_feasible or s.check() != z3.unsat
            s.pop()
        # side obligations of shims (sqrt domain, nonsingular inverse) are part of the VC set
        lite_hyps = [h for h in hyps if not _is_equation(h)]
        has_eq_hyps = len(lite_hyps) < len(hyps)
        goals = [(f"side:{lab}", g) for lab, g in p.side]
        if exc is not None:
            goals.append(("<no exception>", z3.BoolVal(False)))
        for lab, g in posts:
            goals.append((lab, g if isinstance(g, z3.BoolRef) else z3.BoolVal(bool(g))))
        for lab, g in goals:
            res["vcs"] += 1
            if lab not in res["labels"]:
                res["labels"].append(lab)
            s.push()
            s.add(z3.Not(g))
            # staged discharge: (1) short attempt with every hypothesis, (2) the same goal from the non-equational hypotheses only
            # (bounds, signs: sound - fewer hypotheses - and immune to the irrelevant nonlinear equalities that derail z3's NRA
            # heuristics), (3) full budget.  A model (sat) is only ever taken from a solver that holds all hypotheses.
            r = z3.unknown
            if has_eq_hyps:
                lite = _solver(min(timeout_ms, 1500))
                lite.add(*lite_hyps)
                lite.add(z3.Not(g))
                if lite.check() == z3.unsat:
                    r = z3.unsat
                    res["lite_vcs"] = res.get("lite_vcs", 0) + 1
            if r == z3.unknown:
                r = s.check()
            if r == z3.unknown:
                # second opinion from z3's OTHER arithmetic solver on the same query (legacy solver 2 has no nla::core; the default 6 finds
                # models of nonlinear queries more readily).  An `unsat` proves the VC; a `sat` is a counterexample like any other (replayed).
                primary = int(budget.get("arith_solver", 6))
                other = 2 if primary != 2 else 6
                z3.set_param("smt.arith.solver", other)
                try:
                    alt = _solver(min(timeout_ms, 15000))
                    alt.add(*hyps)
                    alt.add(z3.Not(g))
                    ra = alt.check()
                    if ra == z3.unsat:
                        r = z3.unsat
                        res["legacy_vcs"] = res.get("legacy_vcs", 0) + 1
                    elif ra == z3.sat and not known_witnesses:
                        m = alt.model()
                        res.update(verdict="refuted", failed=[lab], values=_model_values(m, inputs),
                                   exc=(f"{type(exc).__name__}: {exc}" if exc is not None and exc != "reject" else None), tb=tb,
                                   solver_output=f"sat (second-opinion solver); model: {_trim(str(m))}")
                        res["solver_s"] = time.time() - t0
                        res["stubs_used"] = sorted(stubs_used)
                        s.pop()
                        return res
                finally:
                    z3.set_param("smt.arith.solver", primary)
            s.set("timeout", timeout_ms)
            if r == z3.sat:
                # known finding?  ask for a counterexample outside every listed witness predicate
                outside = None
                if known_witnesses:
                    wl = []
                    for w in known_witnesses:
                        if w == "*":
                            wl = None
                            break
                        if w in wits:
                            wt = wits[w]
                            wl.append(wt if isinstance(wt, z3.BoolRef) else z3.BoolVal(bool(wt)))
                    if wl is None:
                        outside = "unsat"
                    elif wl:
                        s.push()
                        s.add(z3.Not(z3.Or(*wl)))
                        r2 = s.check()
                        outside = "unsat" if r2 == z3.unsat else ("sat" if r2 == z3.sat else "unknown")
                        if r2 != z3.sat:
                            s.pop()
                if outside == "unsat":
                    known_hit.append(lab)
                    s.pop()
                    continue
                if outside == "unknown":
                    s.pop()
                    res.update(verdict="undecided", reason=f"solver unknown outside known-finding witness for {lab}")
                    res["solver_s"] = time.time() - t0
                    return res
                m = s.model()
                vals = _model_values(m, inputs)
                if outside == "sat":
                    s.pop()
                s.pop()
                res.update(verdict="refuted", failed=[lab], values=vals,
                           exc=(f"{type(exc).__name__}: {exc}" if exc is not None and exc != "reject" else None),
                           tb=tb, solver_output=f"sat; model: {_trim(str(m))}")
                res["solver_s"] = time.time() - t0
                res["stubs_used"] = sorted(stubs_used)
                return res
            s.pop()
            if r != z3.unsat:
                # fallback prover G: polynomial identity modulo the polynomial equalities among the hypotheses (sound, exact)
                try:
                    from . import poly
                    with _time_limit(budget.get("groebner_s", 25)):
                        ok_g = poly.prove(hyps, g)
                    if ok_g:
                        res["groebner_vcs"] = res.get("groebner_vcs", 0) + 1
                        continue
                except (Exception, _Timeout) as e:      # noqa: BLE001 - the fallback may only ever add proofs
                    res["groebner_error"] = f"{type(e).__name__}: {e}"
                res.update(verdict="undecided", reason=f"solver {r} on {lab} ({s.reason_unknown()})")
                res["solver_s"] = time.time() - t0
                return res
    res["solver_s"] = time.time() - t0
    res["stubs_used"] = sorted(stubs_used)
    if not covered:
        res.update(verdict="vacuous", reason="precondition ∧ path unsatisfiable on every path")
        return res
    if res["vcs"] == 0:
        res.update(verdict="vacuous", reason="no verification condition generated")
        return res
    res["known_hit"] = known_hit
    if budget.get("guard_probes", True):
        try:
            res["guard_probe_values"] = _guard_probes(paths)
        except Exception as e:      # noqa: BLE001 - probing is an extra; it must not disturb the verdict
            res["guard_probe_error"] = f"{type(e).__name__}: {e}"
    # an instance that lies entirely inside a listed known finding is not a discharged obligation
    res["verdict"] = "known" if (known_hit and not outside_feasible) else "proved"
    return res


def _cover_by_sampling(hyps, inputs, ranges, solved, tries=6, timeout_ms=8000):
    import z3
    rng = random.Random(12345)
    for _ in range(tries):
        sub = []
        for name, var in inputs.items():
            if name in solved or name not in ranges:
                continue
            kind, lo, hi, pos, nonzero, sample = ranges[name]
            slo, shi = sample if sample else (lo if lo is not None else (0.05 if pos else -8.0), hi if hi is not None else ((lo if lo is not None else 0) + 8.0))
            if kind == "int":
                val = z3.IntVal(rng.randint(int(slo), int(shi)))
            else:
                if pos and slo <= 0:
                    slo = 0.05
                k = rng.randrange(1, 1 << 8)
                fr = Fraction(slo).limit_denominator(1 << 12) + (Fraction(shi).limit_denominator(1 << 12) - Fraction(slo).limit_denominator(1 << 12)) * Fraction(k, 1 << 8)
                if nonzero and fr == 0:
                    fr = Fraction(1, 64)
                val = z3.RealVal(f"{fr.numerator}/{fr.denominator}")
            sub.append((var, val))
        s = _solver(timeout_ms)
        s.add(*[z3.simplify(z3.substitute(h, *sub)) for h in hyps])
        if s.check() == z3.sat:
            return True
    return False


def _term_vars(t, acc=None):
    import z3
    acc = set() if acc is None else acc
    todo = [t]
    seen = set()
    while todo:
        e = todo.pop()
        if e.get_id() in seen:
            continue
        seen.add(e.get_id())
        if z3.is_const(e) and e.decl().kind() == z3.Z3_OP_UNINTERPRETED:
            acc.add(e.decl().name())
        todo.extend(e.children())
    return acc


def _guard_probes(paths, max_groups=6):
    """For the tolerance guards recorded during the symbolic run (idealised to equality in the proof): inputs that lie INSIDE the tolerance
    without being equal, found by z3 from the contract's precondition alone.  Returns a list of value dicts (declared inputs only)."""
    import z3
    out, seen = [], set()
    for p in paths:
        if p.value is None:
            continue
        pre, inputs = p.value[0], p.value[3]
        names = set(inputs)
        for kind, pairs, rtol, atol in p.guards:
            key = (kind, tuple((a.get_id(), b.get_id()) for a, b in pairs))
            if key in seen or len(seen) >= max_groups:
                continue
            seen.add(key)
            vs = set()
            for a, b in pairs:
                _term_vars(a, vs)
                _term_vars(b, vs)
            if not vs or not vs <= names:
                continue            # the guard depends on dependency results / auxiliary symbols: inputs alone do not steer it
            R = lambda t: z3.ToReal(t) if t.is_int() else t
            absd = lambda a, b: z3.If(R(a) - R(b) >= 0, R(a) - R(b), R(b) - R(a))
            tau = lambda b: z3.RealVal(str(atol)) + z3.RealVal(str(rtol)) * z3.If(R(b) >= 0, R(b), -R(b))
            inside = [absd(a, b) <= tau(b) / 2 for a, b in pairs]
            notable = [absd(a, b) >= tau(b) / 4 for a, b in pairs]
            region = z3.And(z3.And(*inside) if kind == "allclose" else z3.Or(*[z3.And(i, n) for i, n in zip(inside, notable)]), z3.Or(*notable))
            # relevant part of the precondition: conjuncts sharing variables with the guard (closure)
            rel, grew = set(vs), True
            hy = []
            pre_v = [(h, _term_vars(h)) for h in pre]
            while grew:
                grew = False
                for h, hv in pre_v:
                    if hv & rel and not hv <= rel:
                        rel |= hv
                        grew = True
            hy = [h for h, hv in pre_v if hv & rel]
            s = _solver(4000)
            s.add(*hy)
            s.add(region)
            if s.check() != z3.sat:
                continue
            m = s.model()
            vals = _model_values(m, {n: inputs[n] for n in rel if n in inputs})
            out.append(vals)
    return out


class _Timeout(BaseException):
    pass


@contextlib.contextmanager
def _time_limit(seconds):
    """wall-clock limit inside a worker process (main thread): raises _Timeout"""
    import signal

    def handler(signum, frame):
        raise _Timeout(f"time limit of {seconds}s exceeded")
    old = signal.signal(signal.SIGALRM, handler)
    prev = signal.alarm(int(seconds))
    try:
        yield
    finally:
        signal.alarm(0)
        signal.signal(signal.SIGALRM, old)
        if prev:
            signal.alarm(prev)


def _trim(s, n=1500):
    return s if len(s) <= n else s[:n] + " ..."


BOOST_SAMPLES = 24


def _worker(args):
    propid, oname, iname, case, tier, seed, known_w, mode, values = args
    t0 = time.time()
    out = {"instance": iname, "obligation": oname, "case": _jsonable_case(case)}
    try:
        import darsia  # noqa: F401  (real package, /repo/src)
        obls = _load_contracts(propid)
        obl = [o for o in obls if o.name == oname][0]
        out["kind"] = obl.kind
        if mode == "replay":
            out["conc"] = [_run_conc(obl, case, values, seed, tier)]
            out["verdict"] = "replayed"
            return out
        nsamp = obl.samples[0 if tier == "quick" else 1]
        if mode == "boost":
            # the proof became undecided on this tree: compensate with a larger bounded stand-in (fresh process, uninstrumented code)
            conc = []
            for k in range(BOOST_SAMPLES):
                r = _run_conc(obl, case, None, seed * 7919 + (k + 17) * 15485863 + hash(iname) % 1000003, tier)
                conc.append(r)
                if r["status"] in ("fail", "raised"):
                    break
            out["conc"] = conc
            bad = [r for r in conc if r["status"] in ("fail", "raised")]
            if bad:
                out.update(verdict="conc-fail", failed=bad[0].get("failed", []), values=bad[0]["inputs"],
                           exc=bad[0].get("exc"), tb=bad[0].get("tb"), witnesses=bad[0].get("witnesses", {}))
            else:
                out["verdict"] = "boost-pass"
            return out
        # 1. concrete companion on the real, uninstrumented code (also the whole of a B obligation)
        conc = []
        for k in range(nsamp):
            r = _run_conc(obl, case, None, seed * 7919 + k * 104729 + hash(iname) % 1000003, tier)
            conc.append(r)
            if r["status"] in ("fail", "raised"):
                break
        out["conc"] = conc
        out["conc_runs"] = len(conc)
        bad = [r for r in conc if r["status"] in ("fail", "raised")]
        if obl.kind == "B":
            if bad:
                out.update(verdict="bounded-fail", failed=bad[0].get("failed", []), values=bad[0]["inputs"],
                           exc=bad[0].get("exc"), tb=bad[0].get("tb"), witnesses=bad[0].get("witnesses", {}))
            elif conc and all(r["status"] == "rejected" for r in conc):
                out.update(verdict="vacuous", reason="every sample rejected by the precondition")
            else:
                out["verdict"] = "bounded-pass"
            return out
        # 2. proof
        limit = (obl.budget or {}).get("wall_s", 240 if tier == "quick" else 900)
        try:
            with _time_limit(limit):
                pr = _prove_instance(obl, case, tier, known_w)
        except _Timeout as e:
            pr = {"verdict": "undecided", "reason": f"proof {e}"}
        out.update(pr)
        probes = pr.pop("guard_probe_values", None) or []
        out.pop("guard_probe_values", None)
        if probes and not bad:
            from . import instr
            instr.restore_all()                       # the probes run on the real, uninstrumented functions
            pres = []
            for vals in probes:
                for rep in range(2):                  # inputs that the guard does not mention are drawn at random
                    c = _run_conc(obl, case, vals, seed * 31 + rep * 977 + 5, tier, max_tries=1)
                    pres.append(c)
                    if c["status"] in ("fail", "raised"):
                        break
            out["guard_probes"] = len(pres)
            conc.extend([c for c in pres if c["status"] != "rejected"])
            bad = [r for r in pres if r["status"] in ("fail", "raised")]
            if bad:
                out["guard_probe_failed"] = True
        wit_b = bad[0].get("witnesses", {}) if bad else {}
        if bad and pr.get("verdict") in ("proved", "known") and any(w == "*" or wit_b.get(w) for w in known_w):
            out["conc_known"] = True
        elif bad:
            # a failing concrete run of the contract on the real uninstrumented code is a violation with a replayable input,
            # whatever the symbolic engine concluded (proved => inconsistency worth reporting; undecided / refuted => this is
            # the failing input)
            out["proof_verdict"] = pr.get("verdict")
            out.update(verdict="conc-fail", failed=bad[0].get("failed", []), values=bad[0]["inputs"],
                       exc=bad[0].get("exc"), tb=bad[0].get("tb"), witnesses=bad[0].get("witnesses", {}))
        return out
    except (Exception, _Timeout) as e:
        out.update(verdict="crash", reason=f"{type(e).__name__}: {e}", tb=traceback.format_exc(limit=12))
        return out
    except BaseException as e:      # Unsupported / PathBudget escaping outside the proof (e.g. raised by a contract in concrete mode)
        if type(e).__name__ in ("Unsupported", "PathBudget"):
            out.update(verdict="undecided", reason=f"{type(e).__name__}: {e}", tb=traceback.format_exc(limit=12))
            return out
        raise
    finally:
        out["wall_s"] = round(time.time() - t0, 3)


def _jsonable_case(case):
    return {k: (list(v) if isinstance(v, tuple) else v) for k, v in case.items()}


# ---- known findings ----------------------------------------------------------------------------------------

def load_known(prop):
    """known_findings.txt lines:
         finding: property=C03 obligation=<instance name or prefix> witness=<name|*> :: text
         fixed: property=C01 <commit> <what failed>
    """
    out = []
    p = ROOT / "known_findings.txt"
    if not p.exists():
        return out
    for line in p.read_text().splitlines():
        line = line.strip()
        if not line.startswith("finding:"):
            continue
        head, _, text = line[len("finding:"):].partition("::")
        kv = dict(tok.split("=", 1) for tok in head.split() if "=" in tok)
        if kv.get("property") == prop:
            out.append({"obligation": kv.get("obligation", ""), "witness": kv.get("witness", "*"), "text": text.strip()})
    return out


def _known_for(instance, known):
    return [k for k in known if instance == k["obligation"] or instance.startswith(k["obligation"])]


# ---- scheduler with hard limits ------------------------------------------------------------------------------

def _child_main(conn, task):
    try:
        r = _worker(task)
    except BaseException as e:      # noqa: BLE001
        r = {"instance": task[2], "obligation": task[1], "case": _jsonable_case(task[3]), "verdict": "crash", "reason": f"{type(e).__name__}: {e}"}
    try:
        conn.send(r)
    finally:
        conn.close()
        sys.stdout.flush()
        os._exit(0)


def _run_tasks(tasks, jobs, hard_limit_of):
    """One forked process per obligation instance, at most `jobs` at a time.  A process that outlives its hard limit (a solver call that
    does not honour its own timeout) is killed and reported as undecided - never as a violation."""
    from multiprocessing.connection import wait
    ctx = mp.get_context("fork")
    pending = list(tasks)
    running = {}
    while pending or running:
        while pending and len(running) < jobs:
            t = pending.pop(0)
            rd, wr = ctx.Pipe(duplex=False)
            p = ctx.Process(target=_child_main, args=(wr, t))
            p.start()
            wr.close()
            running[rd] = (p, t, time.time())
        ready = wait(list(running), timeout=0.5)
        now = time.time()
        for rd in list(running):
            p, t, t0 = running[rd]
            if rd in ready:
                try:
                    r = rd.recv()
                except (EOFError, OSError):
                    r = {"instance": t[2], "obligation": t[1], "case": _jsonable_case(t[3]), "verdict": "crash", "reason": f"worker died (exit code {p.exitcode})"}
                rd.close()
                p.join(5)
                if p.is_alive():
                    p.kill()
                del running[rd]
                yield r
            elif now - t0 > hard_limit_of(t):
                p.kill()
                p.join(5)
                rd.close()
                del running[rd]
                yield {"instance": t[2], "obligation": t[1], "case": _jsonable_case(t[3]), "kind": "?", "verdict": "undecided",
                       "reason": f"hard time limit of {hard_limit_of(t)} s exceeded (a solver call did not honour its timeout); process killed", "wall_s": round(now - t0, 1)}


# ---- main --------------------------------------------------------------------------------------------------

def run_property(prop, tier="quick", seed=0, only=None, jobs=None, write_baseline=False, verbose=False):
    t_start = time.time()
    obls = _load_contracts(prop)
    if not obls:
        print(f"no contracts registered for {prop}")
        return EXIT_CRASH
    known = load_known(prop)
    tasks = []
    for o in obls:
        if o.tier == "thorough" and tier != "thorough":
            continue
        for iname, case in o.instances(tier):
            if only and only not in iname:
                continue
            kw = [k["witness"] for k in _known_for(iname, known)]
            tasks.append((prop, o.name, iname, case, tier, seed, kw, "check", None))
    jobs = jobs or min(16, max(1, len(tasks)))
    limits = {o.name: (o.budget or {}).get("wall_s", 240 if tier == "quick" else 900) for o in obls}
    kinds = {o.name: o.kind for o in obls}
    results = []
    for r in _run_tasks(tasks, jobs, lambda t: 7200 if kinds.get(t[1]) == "B" else 2 * limits.get(t[1], 240) + 180):
        results.append(r)
        if verbose:
            print(f"  {r.get('verdict'):14s} {r['instance']}  {r.get('reason', '')}  ({r.get('wall_s')}s)", flush=True)
    results.sort(key=lambda r: r["instance"])
    return _report(prop, tier, seed, obls, results, known, t_start, write_baseline, only)


def _replay_path(prop, instance):
    safe = "".join(ch if ch.isalnum() or ch in "._-" else "_" for ch in instance)
    d = ROOT / "replays"
    d.mkdir(exist_ok=True)
    return d / f"{safe}.json"


def _write_replay(prop, r, note, reproduced):
    p = _replay_path(prop, r["instance"])
    doc = {"property": prop, "obligation": r["obligation"], "instance": r["instance"], "case": r["case"],
           "failed_obligation_clauses": r.get("failed", []), "values": r.get("values", {}),
           "exception": r.get("exc"), "traceback": r.get("tb"),
           "verifier_output": r.get("solver_output", r.get("reason", "")), "reproduced_on_real_code": reproduced,
           "note": note,
           "how_to_replay": f"cd /verif && ./check {prop} --replay {p.relative_to(ROOT)}"}
    p.write_text(json.dumps(doc, indent=1, default=str))
    return p


def replay_file(prop, path, tier="quick"):
    doc = json.loads(Path(path).read_text())
    case = {k: (tuple(v) if isinstance(v, list) else v) for k, v in doc["case"].items()}
    args = (doc["property"], doc["obligation"], doc["instance"], case, tier, 0, [], "replay", doc["values"])
    ctx = mp.get_context("fork")
    with ctx.Pool(1) as pool:
        r = pool.apply(_worker, (args,))
    c = r["conc"][0] if r.get("conc") else {"status": r.get("verdict"), "reason": r.get("reason")}
    print(json.dumps(c, indent=1, default=str))
    if c["status"] in ("fail", "raised"):
        print(f"VIOLATION property={doc['property']} replay={path}")
        return EXIT_VIOLATION
    return EXIT_HELD if c["status"] == "pass" else EXIT_UNDECIDED


def _replay_values(prop, r, tier):
    """Replay a solver model on the real uninstrumented code in a fresh process."""
    args = (prop, r["obligation"], r["instance"], {k: (tuple(v) if isinstance(v, list) else v) for k, v in r["case"].items()},
            tier, 0, [], "replay", r.get("values", {}))
    ctx = mp.get_context("fork")
    with ctx.Pool(1) as pool:
        rr = pool.apply(_worker, (args,))
    return rr["conc"][0] if rr.get("conc") else {"status": "crash", "reason": rr.get("reason")}


def _report(prop, tier, seed, obls, results, known, t_start, write_baseline, only):
    from . import instr
    base_path = ROOT / "baseline_obligations.json"
    baseline = json.loads(base_path.read_text()) if base_path.exists() else {}
    base_prop = baseline.get(prop, {}).get(tier, {})
    violations, undecided, crashes, lines = [], [], [], []
    known_lines = []
    deductive = [r for r in results if r.get("kind") != "B"]
    bounded = [r for r in results if r.get("kind") == "B"]
    discharged = 0
    downgraded = []
    abstract = {o.name for o in obls if (o.budget or {}).get("abstract")}       # obligations whose VCs contain uninterpreted stand-ins for transcendental functions
    for r in results:
        v = r.get("verdict")
        inst = r["instance"]
        kf = _known_for(inst, known)
        if v in ("proved", "known"):
            if v == "proved":
                discharged += 1
            if r.get("known_hit") or r.get("conc_known"):
                for k in kf:
                    known_lines.append(f"KNOWN-FINDING: property={prop} {inst} witness={k['witness']} ({len(r.get('known_hit', []))} clauses) :: {k['text'][:160]}")
        elif v == "bounded-pass":
            pass
        elif v in ("refuted",):
            c = _replay_values(prop, r, tier)
            if c["status"] in ("fail", "raised"):
                r["failed"] = c.get("failed") or r.get("failed")
                r["exc"] = c.get("exc") or r.get("exc")
                p = _write_replay(prop, r, "solver counterexample replayed on the real uninstrumented code: contract violated", True)
                violations.append((inst, p, ""))
            else:
                # model did not reproduce natively
                if r.get("exc"):
                    # symbolic path raised but the real code does not: engine limitation -> undecided
                    r["verdict"] = "undecided"
                    r["reason"] = f"symbolic path raised {r['exc']} but the concrete replay {c['status']}; engine limitation"
                    undecided.append(r)
                elif base_prop.get(inst) == "proved":
                    # proved on the baseline, refuted now, but the solver's model does not fail on the real code (typically: it assigns values to
                    # abstracted dependency results): look for a failing input with the enlarged bounded stand-in before reporting without one
                    case = {k: (tuple(v) if isinstance(v, list) else v) for k, v in r["case"].items()}
                    br = _run_tasks([(prop, r["obligation"], inst, case, tier, seed, [k["witness"] for k in kf], "boost", None)], 1, lambda t: 3600)
                    br = list(br)[0]
                    if br.get("verdict") == "conc-fail":
                        br["solver_output"] = r.get("solver_output", "")
                        p = _write_replay(prop, br, "obligation proved on the baseline tree and refuted now; the solver's model did not reproduce, the enlarged bounded stand-in found this failing input on the real uninstrumented code", True)
                        violations.append((inst, p, ""))
                    elif r.get("obligation") in abstract:
                        # the solver's model interprets an uninterpreted function (exp ...) freely: "sat" is not a refutation of the real property -> undecided
                        r["verdict"] = "undecided"
                        r["reason"] = "refuted only under a free interpretation of an abstracted transcendental function; the model and the enlarged bounded stand-in give no failing input"
                        undecided.append(r)
                    else:
                        p = _write_replay(prop, r, "obligation was proved on the baseline tree and is now refuted by the solver; neither the model nor the enlarged bounded stand-in gave a failing input on the real code", False)
                        violations.append((inst, p, " no-failing-input-found"))
                else:
                    r["verdict"] = "undecided"
                    r["reason"] = "refuted over the reals but the model does not reproduce on the real code"
                    undecided.append(r)
        elif v in ("bounded-fail", "conc-fail"):
            wit = r.get("witnesses", {})
            hit = [k for k in kf if k["witness"] == "*" or wit.get(k["witness"])]
            if hit:
                known_lines.append(f"KNOWN-FINDING: property={prop} {inst} witness={hit[0]['witness']} :: {hit[0]['text']}")
                if v == "bounded-fail":
                    r["verdict"] = "bounded-known"
            else:
                p = _write_replay(prop, r, "concrete run of the contract on the real uninstrumented code failed", True)
                violations.append((inst, p, ""))
        elif v in ("undecided", "vacuous"):
            undecided.append(r)
        elif v == "crash":
            crashes.append(r)
    # undecided obligations: the concrete companion (bounded stand-in) already ran and passed -> downgrade
    still_undecided = []
    for r in undecided:
        inst = r["instance"]
        if r.get("verdict") == "vacuous":
            still_undecided.append(r)
            continue
        conc_ok = r.get("conc") and all(c["status"] == "pass" for c in r["conc"])
        if base_prop.get(inst) == "proved" and conc_ok:
            downgraded.append(inst)
        else:
            still_undecided.append(r)
    if downgraded:
        # an obligation that was proved on the baseline is undecided here: run a larger bounded stand-in before accepting the downgrade
        by_inst = {r["instance"]: r for r in undecided}
        btasks = []
        for inst in downgraded:
            r = by_inst[inst]
            case = {k: (tuple(v) if isinstance(v, list) else v) for k, v in r["case"].items()}
            btasks.append((prop, r["obligation"], inst, case, tier, seed, [k["witness"] for k in _known_for(inst, known)], "boost", None))
        with mp.get_context("fork").Pool(processes=min(16, len(btasks)), maxtasksperchild=1) as pool:
            bres = pool.map(_worker, btasks, chunksize=1)
        for br in bres:
            if br.get("verdict") == "conc-fail":
                wit = br.get("witnesses", {})
                kf = _known_for(br["instance"], known)
                if any(k["witness"] == "*" or wit.get(k["witness"]) for k in kf):
                    continue
                downgraded.remove(br["instance"])
                br["solver_output"] = by_inst[br["instance"]].get("reason", "")
                p = _write_replay(prop, br, "proof undecided on this tree; the enlarged bounded stand-in found a failing input on the real uninstrumented code", True)
                violations.append((br["instance"], p, ""))
            elif br.get("verdict") == "crash":
                crashes.append(br)
    # vacuity: obligation instance count must match the baseline
    vac_msg = None
    if base_prop and not only:
        names = {r["instance"] for r in results}
        missing = sorted(set(base_prop) - names)
        if missing:
            vac_msg = f"obligation instances missing relative to baseline: {missing[:5]}"
    wall = time.time() - t_start
    # ---- evidence
    funcs = {}
    for o in obls:
        for q in o.funcs:
            try:
                funcs[q] = instr.source_hash(instr.resolve(q))
            except Exception as e:
                funcs[q] = f"unresolved: {type(e).__name__}"
    by_kind = {}
    for r in results:
        k = r.get("kind", "?")
        d = by_kind.setdefault(k, {})
        d[r.get("verdict")] = d.get(r.get("verdict"), 0) + 1
    assumptions = list(GLOBAL_ASSUMPTIONS)
    stubs_used = sorted({s for r in results for s in r.get("stubs_used", [])})
    for o in obls:
        for a in o.assumes:
            if a not in assumptions:
                assumptions.append(a)
    for s in stubs_used:
        try:
            from contracts.deps_validation import VALIDATED_BY
            val = next((v for k, v in VALIDATED_BY.items() if k in s), None)
        except Exception:
            val = None
        assumptions.append(f"A5 assumed contract of external dependency: {s}" + (f" [validated, bounded, against the installed library by {val}]" if val else ""))
    samples = []
    for r in results[:6]:
        samples.append({"obligation": r["instance"], "kind": r.get("kind"), "verdict": r.get("verdict"),
                        "paths": r.get("paths"), "vcs": r.get("vcs"), "clauses": r.get("labels", [])[:8],
                        "concrete_inputs_example": (r.get("conc") or [{}])[0].get("inputs", {})})
    deductive = [r for r in deductive if r.get("verdict") != "known"]
    n_ded = len(deductive)
    n_ded_ok = sum(1 for r in deductive if r.get("verdict") == "proved")
    conc_runs = sum(c.get("evals", 1) for r in results for c in r.get("conc", []))
    level = MANIFEST_LEVEL.get(prop, "proof")
    cov = {
        "obligations": n_ded,
        "discharged": n_ded_ok,
        "checker_cmd": f"./check {prop} --tier {tier}",
        "trusted_base": ["z3 5.1 (SMT: nonlinear real / integer arithmetic)", "CPython 3.12 executing the instrumented real function bodies",
                         "numpy object-array semantics", "vf instrumenter + shims (vf/instr.py, vf/symnp.py, vf/sym.py)"],
        "verification_conditions": sum(r.get("vcs", 0) for r in deductive),
        "paths_explored": sum(r.get("paths", 0) for r in deductive),
        "solver_s": round(sum(r.get("solver_s", 0) for r in deductive), 3),
        "by_backend": by_kind,
        "discharge": {"vcs_from_sign_hypotheses_only": sum(r.get("lite_vcs", 0) for r in deductive),
                      "vcs_by_groebner_fallback": sum(r.get("groebner_vcs", 0) for r in deductive),
                      "vcs_by_z3_legacy_arithmetic_after_unknown": sum(r.get("legacy_vcs", 0) for r in deductive),
                      "vcs_by_z3_with_all_hypotheses": sum(r.get("vcs", 0) - r.get("lite_vcs", 0) - r.get("groebner_vcs", 0) - r.get("legacy_vcs", 0) for r in deductive),
                      "paths_covered_by_parameter_sampling": sum(r.get("cover_by_sampling", 0) for r in deductive),
                      "tolerance_guard_probes_run_concretely": sum(r.get("guard_probes", 0) for r in deductive)},
        "bounded_obligations": len(bounded),
        "bounded_passed": sum(1 for r in bounded if r.get("verdict") == "bounded-pass"),
        "evaluations": conc_runs,
        "distinct_nontrivial": sum(c.get("evals", 1) for r in results for c in r.get("conc", []) if c.get("status") == "pass" and c.get("nposts", 0) > 0),
        "rule": "evaluations = concrete runs of the contract on the real uninstrumented functions (companion of each proof obligation and the whole of each bounded obligation); inputs are seeded random dyadic rationals inside the declared precondition ranges; a run counts as distinct/non-trivial when it was admitted by the precondition and evaluated at least one ensures clause (inputs differ by construction: per-instance, per-sample seeds)",
        "samples": samples,
        "functions_under_contract": funcs,
        "downgraded_to_bounded": downgraded,
        "undecided": [r["instance"] for r in still_undecided],
        "known_findings_hit": known_lines,
        "known_finding_instances_not_counted": [r["instance"] for r in results if r.get("verdict") == "known"],
        "explanation": "deductive obligations (H: real function bodies executed on z3 symbols over all paths; T: AST->VC; X: exact algebra; L: lemma) are counted in obligations/discharged; bounded obligations (B) are concrete evaluations of the same contract on the real code over the stated domain and are never counted as proved",
        "exhaustive": False,
    }
    ev = {"property_id": prop, "tier": tier, "seed": int(seed), "level": level, "coverage": cov,
          "assumptions": assumptions, "wall_s": round(wall, 2), "violations": len(violations)}
    if not only:
        (ROOT / "evidence").mkdir(exist_ok=True)
        (ROOT / "evidence" / f"{prop}.json").write_text(json.dumps(ev, indent=1, default=str))
    if write_baseline and not only:
        baseline.setdefault(prop, {})[tier] = {r["instance"]: r.get("verdict") for r in results}
        base_path.write_text(json.dumps(baseline, indent=1, sort_keys=True))
    # ---- output
    print(f"[{prop}] tier={tier} obligations: deductive {n_ded_ok}/{n_ded} proved, bounded {cov['bounded_passed']}/{len(bounded)} passed, "
          f"{conc_runs} concrete runs, {cov['verification_conditions']} VCs, {wall:.1f}s")
    for ln in known_lines:
        print(ln)
    for inst in downgraded:
        print(f"DOWNGRADED {inst}: proof undecided on this tree, bounded stand-in passed")
    for r in still_undecided:
        print(f"UNDECIDED {r['instance']}: {r.get('verdict')} {r.get('reason', '')}")
        if r.get("tb"):
            print(_trim(r["tb"], 1200))
    for r in crashes:
        print(f"CRASH {r['instance']}: {r.get('reason')}\n{r.get('tb', '')}")
    for inst, p, suffix in violations:
        print(f"failed obligation: {inst}")
        print(f"VIOLATION property={prop} replay={p.relative_to(ROOT)}{suffix}")
    if violations:
        return EXIT_VIOLATION
    if crashes or vac_msg:
        if vac_msg:
            print("VACUITY: " + vac_msg)
        return EXIT_CRASH
    if still_undecided:
        return EXIT_UNDECIDED
    return EXIT_HELD


MANIFEST_LEVEL = {}


def _load_levels():
    p = ROOT / "MANIFEST.json"
    if p.exists():
        try:
            m = json.loads(p.read_text())
            for c in m.get("checks", []):
                MANIFEST_LEVEL[c["property_id"]] = c["level_claimed"]["category"]
        except Exception:
            pass


def main(argv=None):
    import argparse
    ap = argparse.ArgumentParser()
    ap.add_argument("prop")
    ap.add_argument("--tier", default=os.environ.get("VERIF_TIER", "quick"), choices=["quick", "thorough"])
    ap.add_argument("--replay")
    ap.add_argument("--only")
    ap.add_argument("--jobs", type=int)
    ap.add_argument("--write-baseline", action="store_true")
    ap.add_argument("-v", "--verbose", action="store_true")
    a = ap.parse_args(argv)
    sys.path.insert(0, str(ROOT))
    os.environ.setdefault("DARSIA_VERIF", "1")
    _load_levels()
    seed = int(os.environ.get("VERIF_SEED", "0") or 0)
    if a.replay:
        return replay_file(a.prop, a.replay, a.tier)
    return run_property(a.prop, a.tier, seed, a.only, a.jobs, a.write_baseline, a.verbose)


if __name__ == "__main__":
    try:
        rc = main()
        sys.stdout.flush()
    except BrokenPipeError:
        rc = EXIT_CRASH
    os._exit(rc if isinstance(rc, int) else 0)      # never hang in interpreter / pool teardown
