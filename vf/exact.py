"""Back end X: execute a pure, table-like module of /repo in exact algebraic arithmetic.

The module's source file is re-read from disk on every run; two mechanical changes are applied to its AST before it
is executed in a private namespace:
  R4  every float literal  ->  exact sympy Rational of its decimal text  (0.5 -> 1/2, 3.0 -> 3)
  R2x the global `np` is replaced by a proxy whose sqrt is sympy.sqrt and whose array()/ones() build object arrays;
      everything else is numpy's own (reshape, sum, broadcasting run on sympy numbers inside object arrays).
Nothing is dropped.  Results are exact algebraic numbers; identities are decided by sympy (radical simplification,
fallback: minimal polynomial) after a 60-digit numeric pre-filter (a clearly non-zero value is a refutation).
"""
from __future__ import annotations

import ast
import importlib
import inspect
import types

import numpy as np
import sympy as sp


class _NPX(types.ModuleType):
    def __init__(self):
        super().__init__("npx")

    def __getattr__(self, n):
        return getattr(np, n)

    @staticmethod
    def sqrt(x):
        if isinstance(x, np.ndarray):
            out = np.empty(x.shape, dtype=object)
            out.flat = [sp.sqrt(e) for e in x.flat]
            return out
        return sp.sqrt(x)

    @staticmethod
    def array(x, dtype=None, **k):
        return np.array(x, dtype=object)

    @staticmethod
    def ones(shape, dtype=None, **k):
        a = np.empty(shape, dtype=object)
        a[...] = sp.Integer(1)
        return a

    @staticmethod
    def zeros(shape, dtype=None, **k):
        a = np.empty(shape, dtype=object)
        a[...] = sp.Integer(0)
        return a


class _Lit(ast.NodeTransformer):
    def visit_Constant(self, node):
        if isinstance(node.value, float):
            r = sp.Rational(repr(node.value))
            return ast.copy_location(
                ast.Call(ast.Name("__vf_Q", ast.Load()), [ast.Constant(int(r.p)), ast.Constant(int(r.q))], []), node)
        return node


def exact_module(modname):
    """Namespace of the module executed in exact arithmetic."""
    mod = importlib.import_module(modname)
    src = inspect.getsource(mod)
    tree = _Lit().visit(ast.parse(src))
    ast.fix_missing_locations(tree)
    ns = {"__name__": modname + "#exact", "__vf_Q": sp.Rational}
    exec(compile(tree, mod.__file__, "exec"), ns)
    ns["np"] = _NPX()
    return ns


def is_zero(e):
    e = sp.sympify(e)
    if e.is_number:
        v = sp.N(e, 60)
        if abs(v) > sp.Float("1e-40"):
            return False
    s = sp.radsimp(sp.expand(e))
    if s == 0:
        return True
    s = sp.simplify(s)
    if s == 0:
        return True
    try:
        x = sp.Symbol("x")
        return sp.minimal_polynomial(e, x) == x
    except Exception:
        return False


def is_positive(e):
    e = sp.sympify(e)
    v = sp.N(e, 60)
    if v > sp.Float("1e-40"):
        return True
    if v < -sp.Float("1e-40"):
        return False
    return False  # zero or undecidable: not strictly positive
