"""Lemma layer L (Lean 4 + Mathlib): check lemmas/*.lean with the installed `lean`; the verdict is cached per file hash under
.cache/lemmas so that it is paid once per sandbox (tools/setup.sh runs it)."""
import hashlib
import re
import subprocess
from pathlib import Path

ROOT = Path(__file__).resolve().parent.parent


def check(fname="DarsiaLemmas.lean", timeout=900):
    src = (ROOT / "lemmas" / fname).read_text()
    h = hashlib.sha256(src.encode()).hexdigest()[:16]
    cache = ROOT / ".cache" / "lemmas" / f"{fname}.{h}.ok"
    theorems = re.findall(r"^theorem\s+(\w+)", src, flags=re.M)
    clean = "sorry" not in re.sub(r"/-.*?-/", "", src, flags=re.S) and "axiom " not in src and "admit" not in src
    if cache.exists():
        return {"ok": clean, "theorems": theorems, "hash": h, "cached": True, "output": ""}
    try:
        r = subprocess.run(["lean", str(ROOT / "lemmas" / fname)], capture_output=True, text=True, timeout=timeout, cwd=str(ROOT / "lemmas"))
        out = (r.stdout + r.stderr).strip()
        ok = r.returncode == 0 and "error" not in out and clean
    except (subprocess.TimeoutExpired, FileNotFoundError) as e:
        out, ok = f"{type(e).__name__}: {e}", False
    if ok:
        cache.parent.mkdir(parents=True, exist_ok=True)
        cache.write_text(out or "ok")
    return {"ok": ok, "theorems": theorems, "hash": h, "cached": False, "output": out[:2000]}


if __name__ == "__main__":
    import json
    import sys
    res = check()
    print(json.dumps(res, indent=1))
    sys.exit(0 if res["ok"] else 1)
