"""Fallback prover G for polynomial identities modulo polynomial equalities (e.g. c^2 + s^2 = 1).

Used only when z3 answers `unknown` on a goal that is a conjunction of equalities between rational functions: the goal
numerators are reduced modulo a Groebner basis of the polynomial equalities found among the hypotheses (sympy, exact
rational arithmetic).  Remainder 0 => the equality is implied (ideal membership is sufficient, not necessary, so the
fallback can only prove, never refute).  Denominators must be products of variables that the hypotheses constrain to be
non-zero (v > 0, v < 0 or v != 0).
"""
from __future__ import annotations

import sympy as sp
import z3


class NotPolynomial(Exception):
    pass


def to_sympy(t, syms):
    if z3.is_int_value(t):
        return sp.Integer(t.as_long())
    if z3.is_rational_value(t):
        return sp.Rational(t.numerator_as_long(), t.denominator_as_long())
    if z3.is_const(t) and t.decl().kind() == z3.Z3_OP_UNINTERPRETED:
        name = t.decl().name()
        if name not in syms:
            syms[name] = sp.Symbol(name, real=True)
        return syms[name]
    k = t.decl().kind()
    ch = [to_sympy(c, syms) for c in t.children()]
    if k == z3.Z3_OP_ADD:
        return sp.Add(*ch)
    if k == z3.Z3_OP_MUL:
        return sp.Mul(*ch)
    if k == z3.Z3_OP_SUB:
        r = ch[0]
        for c in ch[1:]:
            r = r - c
        return r
    if k == z3.Z3_OP_UMINUS:
        return -ch[0]
    if k == z3.Z3_OP_DIV:
        return ch[0] / ch[1]
    if k == z3.Z3_OP_TO_REAL:
        return ch[0]
    if k == z3.Z3_OP_POWER:
        if ch[1].is_Integer:
            return ch[0] ** ch[1]
    raise NotPolynomial(str(t.decl()))


def _eqs(goal):
    """flatten a conjunction of equalities; anything else -> NotPolynomial"""
    if z3.is_and(goal):
        out = []
        for c in goal.children():
            out.extend(_eqs(c))
        return out
    if z3.is_true(goal):
        return []
    if z3.is_eq(goal) and not z3.is_bool(goal.children()[0]):
        return [goal]
    raise NotPolynomial("goal is not a conjunction of arithmetic equalities")


def prove(hyps, goal, max_vars=40):
    """True if proved by ideal membership, False if not provable this way (never a refutation)."""
    try:
        syms = {}
        goals = [to_sympy(e.children()[0], syms) - to_sympy(e.children()[1], syms) for e in _eqs(goal)]
    except NotPolynomial:
        return False
    gens, nonzero, nonzero_polys, pending = [], set(), [], []
    for h in hyps:
        hs = [h]
        if z3.is_and(h):
            hs = h.children()
        for e in hs:
            try:
                if z3.is_eq(e) and not z3.is_bool(e.children()[0]):
                    p = sp.together(to_sympy(e.children()[0], syms) - to_sympy(e.children()[1], syms))
                    num, den = sp.fraction(p)
                    if den.free_symbols:
                        pending.append((sp.expand(num), den))     # usable once the denominator is known to be non-zero
                        continue
                    gens.append(sp.expand(num))
                elif e.decl().kind() in (z3.Z3_OP_GT, z3.Z3_OP_LT, z3.Z3_OP_DISTINCT) or (z3.is_not(e) and z3.is_eq(e.children()[0])):
                    a, b = (e.children()[0].children() if z3.is_not(e) else e.children())
                    try:
                        d = sp.together(to_sympy(a, syms) - to_sympy(b, syms))
                        nz, dn = sp.fraction(d)
                        if not dn.free_symbols and nz.free_symbols:
                            nonzero_polys.append(sp.expand(nz))      # p != 0 (also from p > 0, p < 0)
                    except NotPolynomial:
                        pass
                    for x, y in ((a, b), (b, a)):
                        if z3.is_const(x) and x.decl().kind() == z3.Z3_OP_UNINTERPRETED and (z3.is_rational_value(y) or z3.is_int_value(y)):
                            val = sp.Rational(str(y.as_fraction())) if z3.is_rational_value(y) else sp.Integer(y.as_long())
                            if val == 0:
                                nonzero.add(x.decl().name())
            except NotPolynomial:
                continue
    def _nonzero(den):
        for fac, _ in sp.factor_list(den)[1]:
            if fac.is_Symbol and fac.name in nonzero:
                continue
            if any(sp.rem(p, fac, *sorted(p.free_symbols | fac.free_symbols, key=str)) == 0 for p in nonzero_polys):
                continue
            return False
        return True
    for num, den in pending:
        if _nonzero(den):
            gens.append(num)           # num/den = 0 with den != 0  =>  num = 0
    allsyms = sorted({s for g in goals for s in g.free_symbols} | {s for g in gens for s in g.free_symbols}, key=str)
    if len(allsyms) > max_vars:
        return False
    gens = [g for g in gens if g != 0 and g.free_symbols]
    G = sp.groebner(gens, *allsyms, order="grevlex") if gens else None
    for g in goals:
        t = sp.together(g)
        num, den = sp.fraction(t)
        for fac, _ in sp.factor_list(den)[1]:
            if fac.is_Symbol and fac.name in nonzero:
                continue
            # a factor of the denominator is non-zero if it divides a polynomial the hypotheses state to be non-zero
            if any(sp.rem(p, fac, *sorted(p.free_symbols | fac.free_symbols, key=str)) == 0 for p in nonzero_polys):
                continue
            return False
        num = sp.expand(num)
        if num == 0:
            continue
        if G is None:
            return False
        _, rem = G.reduce(num)
        if rem != 0:
            return False
    return True
