"""Assumed contracts of external dependencies (rewrite R3).  Every stub records its use in the evidence; each has a
bounded validation against the real dependency in contracts/deps_validation.py (the Cxx.dep_* obligations of the properties that use it)."""
from __future__ import annotations

import numpy as np

from .sym import Sym, is_sym, lift
from .symnp import _has_sym


class SymSparse:
    """Dense object-array model of a scipy.sparse matrix: coordinate semantics, duplicate entries summed."""

    def __init__(self, dense):
        self.a = dense
        self.shape = dense.shape

    @staticmethod
    def from_coo(data, row, col, shape):
        a = np.empty(shape, dtype=object)
        a[...] = 0
        data = np.asarray(data)
        for d, r, c in zip(list(data.flat), list(np.asarray(row).flat), list(np.asarray(col).flat)):
            a[int(r), int(c)] = a[int(r), int(c)] + d
        return SymSparse(a)

    def toarray(self):
        return self.a.copy()

    todense = toarray

    def tocsc(self):
        return self

    tocsr = tocoo = tocsc

    def copy(self):
        return SymSparse(self.a.copy())

    @property
    def T(self):
        return SymSparse(self.a.T.copy())

    def transpose(self):
        return self.T

    def diagonal(self):
        return np.array([self.a[i, i] for i in range(min(self.shape))], dtype=object)

    def dot(self, x):
        if isinstance(x, SymSparse):
            return SymSparse(self.a.dot(x.a))
        return self.a.dot(np.asarray(x))

    def __matmul__(self, x):
        return self.dot(x)

    def __rmatmul__(self, x):
        return np.asarray(x).dot(self.a)

    def __add__(self, o):
        return SymSparse(self.a + (o.a if isinstance(o, SymSparse) else o))

    def __sub__(self, o):
        return SymSparse(self.a - (o.a if isinstance(o, SymSparse) else o))

    def __neg__(self):
        return SymSparse(-self.a)

    def __mul__(self, o):
        if isinstance(o, SymSparse):
            return self.dot(o)
        if np.ndim(o) == 0:
            return SymSparse(self.a * o)
        return self.dot(o)

    def __rmul__(self, o):
        return SymSparse(o * self.a)

    def __getitem__(self, k):
        r = self.a[k]
        return SymSparse(r) if isinstance(r, np.ndarray) and r.ndim == 2 else r


def csc_matrix_stub(ctx, name="scipy.sparse.csc_matrix((data,(row,col)),shape): coordinate semantics, duplicates summed"):
    def csc_matrix(arg, shape=None, dtype=None, **k):
        ctx.stub_used(name)
        if isinstance(arg, SymSparse):
            return arg
        if isinstance(arg, tuple) and len(arg) == 2 and isinstance(arg[1], tuple):
            data, (row, col) = arg
            return SymSparse.from_coo(data, row, col, shape)
        if isinstance(arg, tuple) and len(arg) == 2 and shape is None and all(isinstance(v, (int, np.integer)) for v in arg):
            a = np.empty(arg, dtype=object)
            a[...] = 0
            return SymSparse(a)
        if isinstance(arg, np.ndarray) and arg.ndim == 2:
            return SymSparse(np.array(arg, dtype=object))
        raise NotImplementedError("csc_matrix stub: unsupported constructor form")
    return csc_matrix


def diags_stub(ctx, name="scipy.sparse.diags(v): diagonal matrix"):
    def diags(v, offsets=0, shape=None, **k):
        ctx.stub_used(name)
        v = np.asarray(v)
        n = len(v)
        a = np.empty((n, n), dtype=object)
        a[...] = 0
        for i in range(n):
            a[i, i] = v[i]
        return SymSparse(a)
    return diags


def hmean_stub(ctx, name="scipy.stats.hmean(a, axis=1) = n / sum(1/a_i) for positive input"):
    def hmean(a, axis=0, **k):
        ctx.stub_used(name)
        a = np.asarray(a)
        if not _has_sym(a):
            from scipy.stats import hmean as real
            return real(a.astype(float), axis=axis, **k)
        n = a.shape[axis]
        inv = np.empty(a.shape, dtype=object)
        inv.flat = [1 / (e if is_sym(e) else Sym(lift(e))) for e in a.flat]
        return n / np.sum(inv, axis=axis)
    return hmean


def cv2_resize_area_stub(ctx, name="cv2.resize(src, (w, h), interpolation=INTER_AREA) with integer ratios, no axis shrinking while the other grows: block mean (down-sampling) / repetition (up-sampling) per axis"):
    """Assumed contract of OpenCV's area interpolation for integer ratios (confirmed on OpenCV 4.11 by the bounded
    validation C03.dep_resize).  Non-integer ratios have no contract (=> Unsupported => obligation undecided)."""
    import cv2
    from .sym import Unsupported

    def resize(src, dsize, dst=None, fx=None, fy=None, interpolation=None, **k):
        src_a = np.asarray(src)
        if not _has_sym(src_a):
            return cv2.resize(src_a.astype(float) if src_a.dtype == object else src_a, dsize, interpolation=interpolation)
        ctx.stub_used(name)
        if interpolation != cv2.INTER_AREA:
            raise Unsupported("cv2.resize stub: only INTER_AREA has an assumed contract")
        w, h = int(dsize[0]), int(dsize[1])
        out = src_a
        if out.ndim == 3 and out.shape[2] == 1:
            out = out[:, :, 0]                       # OpenCV returns a 2-D array for a single channel
        # OpenCV's INTER_AREA is an area interpolation only if NO axis is enlarged; if one axis shrinks while the other grows it
        # interpolates linearly along both (validated by C03.dep_resize): no contract for that regime
        if (h < out.shape[0] and w > out.shape[1]) or (h > out.shape[0] and w < out.shape[1]):
            raise Unsupported("cv2.resize stub: one axis shrinks while the other is enlarged - INTER_AREA is not an area interpolation there")
        for axis, new in ((0, h), (1, w)):
            old = out.shape[axis]
            if new == old:
                continue
            if old % new == 0:
                r = old // new
                shp = list(out.shape)
                shp[axis:axis + 1] = [new, r]
                out = np.sum(out.reshape(shp), axis=axis + 1) / r
            elif new % old == 0:
                out = np.repeat(out, new // old, axis=axis)
            else:
                raise Unsupported("cv2.resize stub: non-integer resampling ratio")
        return out
    return resize


def rotation_stub(ctx, name="scipy Rotation.from_rotvec(theta * e_k).as_matrix(): right-handed rotation about coordinate axis k with (c, s) = (cos theta, sin theta) constrained only by c^2 + s^2 = 1; from_rotvec(-theta * e_k) uses (c, -s)"):
    """Assumed contract of scipy.spatial.transform.Rotation for rotation vectors along a coordinate axis."""
    import z3
    from scipy.spatial.transform import Rotation as Real
    from .sym import PathCtx, Unsupported
    table = {}

    def cs(t):
        t = z3.simplify(t)
        key = t.sexpr()
        if key in table:
            return table[key]
        neg = z3.simplify(-t).sexpr()
        if neg in table:
            c, s = table[neg]
            table[key] = (c, -s)
            return table[key]
        if z3.is_rational_value(t) and t.numerator_as_long() == 0:
            table[key] = (z3.RealVal(1), z3.RealVal(0))
            return table[key]
        k = len(table)
        c, s = z3.Real(f"__cos{k}"), z3.Real(f"__sin{k}")
        PathCtx.cur.add(c * c + s * s == 1)
        table[key] = (c, s)
        return table[key]

    class _Rot:
        def __init__(self, k, t):
            self.k, self.t = k, t

        def as_matrix(self):
            c, s = cs(self.t)
            C, S = Sym(c), Sym(s)
            m = np.empty((3, 3), dtype=object)
            m[...] = 0
            i, j = [(1, 2), (2, 0), (0, 1)][self.k]      # right-handed rotation about axis k
            m[self.k, self.k] = 1
            m[i, i], m[i, j], m[j, i], m[j, j] = C, -S, S, C
            return m

    class RotationStub:
        @staticmethod
        def from_rotvec(vec, *a, **k):
            v = np.asarray(vec)
            if not _has_sym(v):
                return Real.from_rotvec(v.astype(float), *a, **k)
            ctx.stub_used(name)
            table_reset = PathCtx.cur
            if getattr(RotationStub, "_ctx", None) is not table_reset:
                table.clear()
                RotationStub._ctx = table_reset
            nz = []
            for idx, e in enumerate(v.flat):
                te = z3.simplify(lift(e))
                if (z3.is_int_value(te) and te.as_long() == 0) or (z3.is_rational_value(te) and te.numerator_as_long() == 0):
                    continue
                nz.append((idx, te))
            if len(nz) == 0:
                return _Rot(0, z3.RealVal(0))
            if len(nz) != 1:
                raise Unsupported("Rotation stub: rotation vector not along a coordinate axis")
            kk, t = nz[0]
            if t.is_int():
                t = z3.ToReal(t)
            return _Rot(kk, t)
    return RotationStub


class _OptResult:
    def __init__(self, x):
        self.x, self.success, self.fun = x, True, None


def minimize_stub(ctx, monotone=True, name="scipy.optimize.minimize(f, x0, method='Powell'): returns some x of the length of x0"):
    """Assumed contract of the optimiser: an arbitrary vector of the right length; with monotone=True additionally
    f(x) <= f(x0) (Powell's method never accepts an increase).  Calls are recorded in ctx.minimize_calls."""
    import z3
    from .sym import PathCtx
    nm = name + ("; f(x) <= f(x0)" if monotone else "")

    def minimize(fun, x0, *a, **k):
        x0 = np.asarray(x0)
        calls = ctx.__dict__.setdefault("minimize_calls", [])
        if not ctx.sym:
            import scipy.optimize
            r = scipy.optimize.minimize(fun, x0, *a, **k)
            calls.append(dict(fun=fun, x0=x0, x=r.x))
            return r
        ctx.stub_used(nm)
        n = len(calls)
        x = np.array([ctx.real(f"opt{n}_{i}", sample=(-1.0, 1.0)) for i in range(x0.size)], dtype=object)
        if monotone:
            fx, fx0 = fun(x), fun(x0)
            PathCtx.cur.add(lift(fx) <= lift(fx0))
        calls.append(dict(fun=fun, x0=x0, x=x.copy()))
        return _OptResult(x)
    return minimize


import contextlib


@contextlib.contextmanager
def record_minimize(ctx):
    """Concrete mode: wrap the REAL scipy.optimize.minimize so that its calls are recorded in ctx.minimize_calls (the
    symbolic mode records through the stub).  The wrapper only observes."""
    import scipy.optimize as so
    real = so.minimize
    calls = ctx.__dict__.setdefault("minimize_calls", [])

    def wrapper(fun, x0, *a, **k):
        n = len(calls)
        size = np.asarray(x0).size
        if ctx.values is not None and all(f"opt{n}_{i}" in ctx.values for i in range(size)):
            # replay of a solver model: the dependency's result is forced to the (admissible) value of the model
            from fractions import Fraction
            x = np.array([float(Fraction(ctx.values[f"opt{n}_{i}"])) if isinstance(ctx.values[f"opt{n}_{i}"], str) else float(ctx.values[f"opt{n}_{i}"]) for i in range(size)])
            calls.append(dict(fun=fun, x0=np.asarray(x0), x=x.copy()))
            return _OptResult(x)
        r = real(fun, x0, *a, **k)
        calls.append(dict(fun=fun, x0=np.asarray(x0), x=np.array(r.x, copy=True)))      # callers may edit r.x in place afterwards
        return r
    if ctx.sym:
        yield
        return
    so.minimize = wrapper
    try:
        yield
    finally:
        so.minimize = real


def cv2_split_stub(ctx):
    def split(m):
        ctx.stub_used("cv2.split(m): tuple of the channels m[..., c]")
        m = np.asarray(m)
        if m.ndim == 2:
            return (m,)
        return tuple(m[..., c] for c in range(m.shape[2]))
    return split


def cv2_merge_stub(ctx):
    def merge(chs):
        ctx.stub_used("cv2.merge(channels): stack along the last axis (a single channel stays 2-D)")
        chs = list(chs)
        if len(chs) == 1:
            return np.asarray(chs[0])
        return np.stack(chs, axis=-1)
    return merge


def cv2_resize_full_stub(ctx):
    """cv2.resize(src, dsize=..., fx=..., fy=..., interpolation=INTER_AREA): dsize or integer factors, via the area contract"""
    base = cv2_resize_area_stub(ctx)

    def resize(src, dsize=None, fx=None, fy=None, interpolation=None, **k):
        src_a = np.asarray(src)
        if dsize is None:
            w, h = int(round(src_a.shape[1] * fx)), int(round(src_a.shape[0] * fy))
            dsize = (w, h)
        return base(src_a, dsize, interpolation=interpolation)
    return resize
