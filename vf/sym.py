"""Symbolic scalars carried through the REAL darsia functions (back end H).

Sym wraps a z3 Int/Real term and overloads Python arithmetic; SymBool wraps a z3 Bool and forks the
path explorer when Python asks for its truth value.  Python floats are modelled as reals, Python /
numpy ints as mathematical integers (assumptions A1, A2 of DESIGN.md).
"""
from __future__ import annotations

import math
from fractions import Fraction

import numpy as np
import z3


class Unsupported(BaseException):
    """A construct the symbolic values / shims cannot carry.  Makes the obligation *undecided*.
    (BaseException: a blanket `except Exception` in the code under test - e.g. the fault handling of the Wasserstein solvers - must
    not swallow an engine limitation and turn it into a 'fault path'.)"""


class PathBudget(BaseException):
    pass


def is_sym(x) -> bool:
    return isinstance(x, (Sym, SymBool))


def lift(x):
    """Python / numpy scalar or Sym -> z3 term."""
    if isinstance(x, Sym):
        return x.t
    if isinstance(x, SymBool):
        return x.t
    if isinstance(x, (bool, np.bool_)):
        return z3.BoolVal(bool(x))
    if isinstance(x, (int, np.integer)):
        return z3.IntVal(int(x))
    if isinstance(x, (float, np.floating)):
        f = float(x)
        if math.isnan(f) or math.isinf(f):
            raise Unsupported(f"non-finite float {f} in symbolic arithmetic")
        fr = Fraction(f)
        return z3.RealVal(f"{fr.numerator}/{fr.denominator}")
    if isinstance(x, Fraction):
        return z3.RealVal(f"{x.numerator}/{x.denominator}")
    if isinstance(x, np.ndarray) and x.shape == ():
        return lift(x.item())
    raise Unsupported(f"cannot lift {type(x).__name__} into a z3 term")


def _real(t):
    return z3.ToReal(t) if t.is_int() else t


def _coerce(a, b):
    if a.is_int() and b.is_real():
        return z3.ToReal(a), b
    if a.is_real() and b.is_int():
        return a, z3.ToReal(b)
    return a, b


def _const_value(t):
    """Python number if the term simplifies to a numeral, else None."""
    s = z3.simplify(t)
    if z3.is_int_value(s):
        return s.as_long()
    if z3.is_rational_value(s):
        return Fraction(s.numerator_as_long(), s.denominator_as_long())
    return None


class Sym:
    __slots__ = ("t",)

    def __init__(self, t):
        self.t = t

    # -- sorts
    @property
    def is_int(self):
        return self.t.is_int()

    @property
    def is_real(self):
        return self.t.is_real()

    def _bin(self, o, f, rev=False, real=False):
        if isinstance(o, np.ndarray) and o.shape != ():
            return NotImplemented
        if isinstance(o, (list, tuple, str, type(None))):
            return NotImplemented
        try:
            b = lift(o)
        except Unsupported:
            return NotImplemented
        a = self.t
        if z3.is_bool(b):
            b = z3.If(b, z3.IntVal(1), z3.IntVal(0))
        if real:
            a, b = _real(a), _real(b)
        else:
            a, b = _coerce(a, b)
        if rev:
            a, b = b, a
        return Sym(f(a, b))

    def __add__(s, o): return s._bin(o, lambda a, b: a + b)
    def __radd__(s, o): return s._bin(o, lambda a, b: a + b, True)
    def __sub__(s, o): return s._bin(o, lambda a, b: a - b)
    def __rsub__(s, o): return s._bin(o, lambda a, b: a - b, True)
    def __mul__(s, o): return s._bin(o, lambda a, b: a * b)
    def __rmul__(s, o): return s._bin(o, lambda a, b: a * b, True)
    def __truediv__(s, o): return s._bin(o, lambda a, b: a / b, real=True)
    def __rtruediv__(s, o): return s._bin(o, lambda a, b: a / b, True, real=True)

    @staticmethod
    def _floordiv(a, b):
        if a.is_int() and b.is_int():
            # python floor division; z3 int division is euclidean (equal to floor for a positive divisor)
            if z3.is_int_value(b) and b.as_long() > 0:
                return a / b
            return z3.ToInt(z3.ToReal(a) / z3.ToReal(b))
        return z3.ToReal(z3.ToInt(_real(a) / _real(b)))

    def __floordiv__(s, o): return s._bin(o, Sym._floordiv)
    def __rfloordiv__(s, o): return s._bin(o, Sym._floordiv, True)

    @staticmethod
    def _mod(a, b):
        if a.is_int() and b.is_int():
            return a - b * Sym._floordiv(a, b)
        a, b = _real(a), _real(b)
        return a - b * z3.ToReal(z3.ToInt(a / b))

    def __mod__(s, o): return s._bin(o, Sym._mod)
    def __rmod__(s, o): return s._bin(o, Sym._mod, True)

    def __pow__(s, o):
        if isinstance(o, Sym):
            c = _const_value(o.t)
            if c is None:
                raise Unsupported("symbolic exponent")
            o = c
        if isinstance(o, (float, np.floating)) and float(o) == int(o):
            o = int(o)
        if isinstance(o, (int, np.integer)):
            o = int(o)
            if o == 0:
                return Sym(z3.IntVal(1) if s.t.is_int() else z3.RealVal(1))
            base = s.t
            if o < 0:
                base = z3.RealVal(1) / _real(base)
                o = -o
            r = base
            for _ in range(o - 1):
                r = r * base
            return Sym(r)
        if isinstance(o, (float, np.floating, Fraction)) and float(o) == 0.5:
            return sym_sqrt(s)
        raise Unsupported(f"power with exponent {o!r}")

    def __rpow__(s, o):
        raise Unsupported("symbolic exponent")

    def __neg__(s): return Sym(-s.t)
    def __pos__(s): return s
    def __abs__(s): return Sym(z3.If(s.t >= 0, s.t, -s.t))
    def __floor__(s): return Sym(z3.ToInt(s.t)) if s.t.is_real() else s
    def __ceil__(s): return Sym(-z3.ToInt(-s.t)) if s.t.is_real() else s
    def __trunc__(s):
        if s.t.is_int():
            return s
        return Sym(z3.If(s.t >= 0, z3.ToInt(s.t), -z3.ToInt(-s.t)))

    def __round__(s, n=None):
        if s.t.is_int():
            return s
        if n:
            raise Unsupported("round(x, n != 0) of a symbolic real")
        # round half to even (Python's round and np.round agree on this)
        k = z3.ToInt(s.t + z3.RealVal("1/2"))
        tie = z3.ToReal(k) == s.t + z3.RealVal("1/2")
        return Sym(z3.If(z3.And(tie, k % 2 != 0), k - 1, k))

    def floor(s): return s.__floor__()
    def ceil(s): return s.__ceil__()
    def sqrt(s): return sym_sqrt(s)
    def conjugate(s): return s
    def copy(s): return s
    def __copy__(s): return s
    def __deepcopy__(s, memo): return s
    def item(s): return s

    @property
    def real(s): return s

    def astype(s, t, *a, **k):
        return cast_scalar(s, t)

    def is_integer(s):
        if s.t.is_int():
            return True
        return bool(SymBool(z3.ToReal(z3.ToInt(s.t)) == s.t))

    def __repr__(s): return f"Sym({z3.simplify(s.t)})"

    def _concrete(s, what):
        c = _const_value(s.t)
        if c is None:
            raise Unsupported(f"{what} of a symbolic value {s!r}")
        return c

    def __float__(s): return float(s._concrete("float()"))
    def __int__(s): return int(s._concrete("int()"))
    def __index__(s):
        c = s._concrete("index")
        if isinstance(c, Fraction):
            raise TypeError("real used as index")
        return c

    def __bool__(s):
        return bool(SymBool(s.t != 0))

    def __hash__(s): return id(s)

    def _cmp(s, o, f):
        if isinstance(o, np.ndarray) and o.shape != ():
            return NotImplemented
        if o is None or isinstance(o, (str, list, tuple, dict)):
            return NotImplemented
        try:
            b = lift(o)
        except Unsupported:
            return NotImplemented
        a = s.t
        if z3.is_bool(b):
            b = z3.If(b, z3.IntVal(1), z3.IntVal(0))
        a, b = _coerce(a, b)
        return SymBool(f(a, b))

    def __lt__(s, o): return s._cmp(o, lambda a, b: a < b)
    def __le__(s, o): return s._cmp(o, lambda a, b: a <= b)
    def __gt__(s, o): return s._cmp(o, lambda a, b: a > b)
    def __ge__(s, o): return s._cmp(o, lambda a, b: a >= b)

    def __eq__(s, o):
        r = s._cmp(o, lambda a, b: a == b)
        return False if r is NotImplemented else r

    def __ne__(s, o):
        r = s._cmp(o, lambda a, b: a != b)
        return True if r is NotImplemented else r


def cast_scalar(e, t):
    """C-style cast of a scalar to dtype t (truncation toward zero for real -> int)."""
    try:
        dt = np.dtype(t)
    except TypeError:
        dt = None
    if not isinstance(e, Sym):
        if isinstance(e, SymBool):
            if dt is not None and dt.kind == "b":
                return e
            v = Sym(z3.If(e.t, z3.IntVal(1), z3.IntVal(0)))
            return cast_scalar(v, t)
        if dt is None or dt.kind == "O":
            return e
        return dt.type(e).item() if dt.kind in "iufb" else e
    if dt is None or dt.kind == "O":
        return e
    if dt.kind in "iu":
        return e.__trunc__()
    if dt.kind == "f":
        return Sym(z3.ToReal(e.t)) if e.t.is_int() else e
    if dt.kind == "b":
        return SymBool(e.t != 0)
    raise Unsupported(f"cast of symbolic value to {t}")


def _sign(t, pos):
    """Sound sign analysis of an arithmetic term given the set `pos` of variable names known to be > 0:
    '+' (> 0), '-' (< 0), '0' (== 0) or None (unknown)."""
    if z3.is_int_value(t) or z3.is_rational_value(t):
        v = t.as_long() if z3.is_int_value(t) else t.numerator_as_long()
        return "+" if v > 0 else ("-" if v < 0 else "0")
    if z3.is_const(t) and t.decl().kind() == z3.Z3_OP_UNINTERPRETED:
        return "+" if t.decl().name() in pos else None
    k = t.decl().kind()
    ch = t.children()
    if k == z3.Z3_OP_TO_REAL:
        return _sign(ch[0], pos)
    if k == z3.Z3_OP_UMINUS:
        r = _sign(ch[0], pos)
        return {"+": "-", "-": "+", "0": "0"}.get(r)
    if k in (z3.Z3_OP_MUL, z3.Z3_OP_DIV):
        neg = False
        for i, c in enumerate(ch):
            r = _sign(c, pos)
            if r is None:
                return None
            if r == "0":
                return "0" if (k == z3.Z3_OP_MUL or i == 0) else None
            neg ^= r == "-"
        return "-" if neg else "+"
    if k == z3.Z3_OP_ADD:
        seen = set()
        for c in ch:
            r = _sign(c, pos)
            if r is None:
                return None
            if r != "0":
                seen.add(r)
        if not seen:
            return "0"
        return seen.pop() if len(seen) == 1 else None
    if k == z3.Z3_OP_SUB and len(ch) == 2:
        a, b = _sign(ch[0], pos), _sign(ch[1], pos)
        if a is None or b is None:
            return None
        if b == "0":
            return a
        fb = {"+": "-", "-": "+"}[b]
        if a == "0" or a == fb:
            return fb
        return None
    return None


def quick_decision(cond, pos):
    """Decide cond (a simplified z3 Boolean) by sign analysis alone; None if it does not apply."""
    neg = False
    while z3.is_not(cond):
        cond, neg = cond.children()[0], not neg
    k = cond.decl().kind()
    if k not in (z3.Z3_OP_EQ, z3.Z3_OP_DISTINCT, z3.Z3_OP_LE, z3.Z3_OP_GE, z3.Z3_OP_LT, z3.Z3_OP_GT) or len(cond.children()) != 2:
        return None
    a, b = cond.children()
    if z3.is_bool(a):
        return None
    sa, sb = _sign(a, pos), _sign(b, pos)
    if sa is None or sb is None:
        return None
    # only comparisons against zero, or of terms with different strict signs, are resolved
    if sb == "0":
        s = sa
    elif sa == "0":
        s = {"+": "-", "-": "+", "0": "0"}[sb]
    elif sa != sb:
        s = sa          # positive vs negative (or the reverse): the sign of a - b is the sign of a
    else:
        return None
    val = {z3.Z3_OP_EQ: s == "0", z3.Z3_OP_DISTINCT: s != "0", z3.Z3_OP_LE: s in "-0", z3.Z3_OP_GE: s in "+0",
           z3.Z3_OP_LT: s == "-", z3.Z3_OP_GT: s == "+"}[k]
    return (not val) if neg else val


class PathCtx:
    """One run of the function under a decision list."""
    cur: "PathCtx | None" = None
    decide_timeout_ms = 20000       # per feasibility query of a branch; `unknown` counts as feasible (sound: more paths, never fewer)

    def __init__(self, decisions, hyps=(), max_decisions=400):
        self.decisions = list(decisions)
        self.open_alt = [False] * len(self.decisions)
        self.pos = 0
        self.pc = []
        self.side = []          # side constraints introduced by shims (sqrt etc.)
        self.solver = z3.Solver()
        self.solver.set("timeout", PathCtx.decide_timeout_ms)
        for h in hyps:
            self.solver.add(h)
        self.max_decisions = max_decisions
        self.fresh = 0
        self.guards = []           # tolerance guards met on symbolic operands (probed concretely by the runner)
        self.sqrt_memo = {}
        self.known_pos = set()     # names of variables asserted > 0 (feeds the sign analysis that spares solver calls)
        self.quick = 0

    def add(self, c):
        self.pc.append(c)
        self.solver.add(c)

    def fresh_real(self, stem="aux"):
        self.fresh += 1
        return z3.Real(f"__{stem}{self.fresh}")

    def decide(self, cond):
        s = self.solver
        simp = z3.simplify(cond)
        if z3.is_true(simp):
            return True
        if z3.is_false(simp):
            return False
        q = quick_decision(simp, self.known_pos)
        if q is not None:
            self.quick += 1
            return q               # implied by the sign hypotheses: no fork, nothing to add to the path condition
        if self.pos < len(self.decisions):
            d = self.decisions[self.pos]
        else:
            if self.pos >= self.max_decisions:
                raise PathBudget("too many decisions on one path")
            s.push(); s.add(cond); r1 = s.check(); s.pop()
            s.push(); s.add(z3.Not(cond)); r2 = s.check(); s.pop()
            t_ok = r1 != z3.unsat
            f_ok = r2 != z3.unsat
            if not t_ok and not f_ok:
                # path condition itself infeasible (should not happen); follow True
                t_ok = True
            d = t_ok
            self.decisions.append(d)
            self.open_alt.append(t_ok and f_ok)
        self.pos += 1
        self.add(cond if d else z3.Not(cond))
        return d


class SymBool:
    __slots__ = ("t",)

    def __init__(self, t):
        self.t = t

    def __bool__(self):
        ctx = PathCtx.cur
        if ctx is None:
            s = z3.simplify(self.t)
            if z3.is_true(s):
                return True
            if z3.is_false(s):
                return False
            raise Unsupported("truth value of a symbolic condition outside a path context")
        return ctx.decide(self.t)

    @staticmethod
    def _b(o):
        if isinstance(o, SymBool):
            return o.t
        if isinstance(o, (bool, np.bool_)):
            return z3.BoolVal(bool(o))
        if isinstance(o, Sym):
            return o.t != 0
        if isinstance(o, (int, np.integer)):
            return z3.BoolVal(bool(o))
        return None

    def __and__(s, o):
        b = SymBool._b(o)
        return NotImplemented if b is None else SymBool(z3.And(s.t, b))
    __rand__ = __and__

    def __or__(s, o):
        b = SymBool._b(o)
        return NotImplemented if b is None else SymBool(z3.Or(s.t, b))
    __ror__ = __or__

    def __xor__(s, o):
        b = SymBool._b(o)
        return NotImplemented if b is None else SymBool(z3.Xor(s.t, b))
    __rxor__ = __xor__

    def __invert__(s): return SymBool(z3.Not(s.t))
    def __eq__(s, o):
        b = SymBool._b(o)
        return False if b is None else SymBool(s.t == b)
    def __ne__(s, o):
        b = SymBool._b(o)
        return True if b is None else SymBool(s.t != b)
    def __hash__(s): return id(s)
    def __repr__(s): return f"SymBool({z3.simplify(s.t)})"
    def copy(s): return s
    def __deepcopy__(s, memo): return s

    def _as_int(s): return Sym(z3.If(s.t, z3.IntVal(1), z3.IntVal(0)))
    def __add__(s, o): return s._as_int() + o
    __radd__ = __add__
    def __mul__(s, o): return s._as_int() * o
    __rmul__ = __mul__
    def __sub__(s, o): return s._as_int() - o
    def __rsub__(s, o): return o - s._as_int()
    def astype(s, t, *a, **k): return cast_scalar(s, t)


def _perfect_square_root(t):
    """u if the term is syntactically a square u * u: a product in which every factor occurs an even number of times (numeral factors:
    a perfect-square rational), or u ** 2; else None"""
    for cand in (t, z3.simplify(t)):
        k = cand.decl().kind()
        ch = cand.children()
        if k == z3.Z3_OP_POWER and len(ch) == 2 and _const_value(ch[1]) == 2:
            return _real(ch[0])
        if k != z3.Z3_OP_MUL:
            continue
        flat, todo = [], list(ch)
        while todo:
            c = todo.pop()
            if c.decl().kind() == z3.Z3_OP_MUL:
                todo.extend(c.children())
            else:
                flat.append(c)
        coeff = Fraction(1)
        groups = {}
        for c in flat:
            v = _const_value(c) if (z3.is_int_value(c) or z3.is_rational_value(c)) else None
            if v is not None:
                coeff *= Fraction(v)
            elif c.decl().kind() == z3.Z3_OP_POWER and _const_value(c.children()[1]) == 2:
                g = groups.setdefault(c.children()[0].get_id(), [c.children()[0], 0])
                g[1] += 2
            else:
                g = groups.setdefault(c.get_id(), [c, 0])
                g[1] += 1
        if coeff < 0 or any(n % 2 for _, n in groups.values()):
            continue
        n, d = coeff.numerator, coeff.denominator
        if math.isqrt(n) ** 2 != n or math.isqrt(d) ** 2 != d:
            continue
        root = z3.RealVal(f"{math.isqrt(n)}/{math.isqrt(d)}")
        for c, m in groups.values():
            for _ in range(m // 2):
                root = root * _real(c)
        return root
    return None


def sym_sqrt(x, nonneg=False):
    """sqrt over the reals: fresh r with r >= 0 and r*r == x (side constraint on the path); x >= 0 is
    recorded as a side *obligation* (domain of sqrt) unless the caller built x as a sum of squares (nonneg=True)."""
    if not isinstance(x, Sym):
        return math.sqrt(x)
    c = _const_value(x.t)
    if c is not None:
        fr = Fraction(c)
        n, d = fr.numerator, fr.denominator
        if n >= 0 and math.isqrt(n) ** 2 == n and math.isqrt(d) ** 2 == d:
            return Sym(z3.RealVal(f"{math.isqrt(n)}/{math.isqrt(d)}"))
    root = _perfect_square_root(x.t)
    if root is not None:
        return Sym(z3.If(root >= 0, root, -root))          # sqrt(t * t) = |t|: no auxiliary variable needed
    ctx = PathCtx.cur
    if ctx is None:
        raise Unsupported("sqrt of symbolic value outside path context")
    xt = _real(x.t)
    key_t = z3.simplify(xt)
    hit = ctx.sqrt_memo.get(key_t.get_id())
    if hit is not None:
        return Sym(hit[1])          # sqrt is a function: the same radicand gives the same auxiliary variable
    r = ctx.fresh_real("sqrt")
    ctx.sqrt_memo[key_t.get_id()] = (key_t, r)      # the radicand AST is kept alive with its id
    if not nonneg:
        ctx.side.append(("sqrt-domain", xt >= 0))
    ctx.add(z3.And(r >= 0, r * r == xt))
    return Sym(r)


_EXP_UF = None


def sym_exp(x):
    """exp over the reals as an UNINTERPRETED function (congruence only: equal arguments give equal values) that is positive.  Nothing else about exp is
    available to the solver: identities such as exp(a + b) = exp(a) exp(b) are not - obligations that use it set budget['abstract']."""
    global _EXP_UF
    if not isinstance(x, Sym):
        return math.exp(x)
    c = _const_value(x.t)
    if c is not None and Fraction(c) == 0:
        return Sym(z3.RealVal(1))
    ctx = PathCtx.cur
    if ctx is None:
        raise Unsupported("exp of symbolic value outside path context")
    if _EXP_UF is None:
        _EXP_UF = z3.Function("vf_exp", z3.RealSort(), z3.RealSort())
    e = _EXP_UF(z3.simplify(_real(x.t)))
    ctx.add(e > 0)
    return Sym(e)


def sym_if(c, a, b):
    if isinstance(c, (bool, np.bool_)):
        return a if c else b
    ct = c.t
    at, bt = lift(a), lift(b)
    if z3.is_bool(at) and z3.is_bool(bt):
        return SymBool(z3.If(ct, at, bt))
    at, bt = _coerce(at, bt)
    return Sym(z3.If(ct, at, bt))


def sym_max(a, b):
    if not is_sym(a) and not is_sym(b):
        return a if a >= b else b
    return sym_if(Sym(lift(a)) >= b, a, b)


def sym_min(a, b):
    if not is_sym(a) and not is_sym(b):
        return a if a <= b else b
    return sym_if(Sym(lift(a)) <= b, a, b)


class PathResult:
    __slots__ = ("pc", "side", "value", "exc", "decisions", "guards")

    def __init__(self, pc, side, value, exc, decisions, guards=()):
        self.pc, self.side, self.value, self.exc, self.decisions, self.guards = pc, side, value, exc, decisions, list(guards)


def explore(fn, hyps=(), max_paths=256):
    """Run fn() under every feasible decision sequence.  Returns list[PathResult]; raises PathBudget if
    the budget is exhausted (=> obligation undecided, never 'proved')."""
    stack = [[]]
    out = []
    while stack:
        if len(out) >= max_paths:
            raise PathBudget(f"more than {max_paths} paths")
        dec = stack.pop()
        ctx = PathCtx(dec, hyps)
        PathCtx.cur = ctx
        value = exc = None
        try:
            value = fn()
        except (Unsupported, PathBudget):
            raise
        except Exception as e:  # the real code raised on this path
            exc = e
        finally:
            PathCtx.cur = None
        out.append(PathResult(list(ctx.pc), list(ctx.side), value, exc, list(ctx.decisions), ctx.guards))
        for k in range(len(dec), len(ctx.decisions)):
            if ctx.open_alt[k]:
                stack.append(ctx.decisions[:k] + [not ctx.decisions[k]])
    return out
