"""Frame conditions on module / class level state: a function under a 'no hidden state' contract may not add,
rebind or grow any module-level or class-level container of the anchored modules (caches keyed on whatever)."""
from __future__ import annotations

import importlib
import inspect
import types

import numpy as np

_IGNORE_PREFIX = ("__vf_", "__")


def _fp(v):
    if isinstance(v, (dict, list, set, frozenset, tuple, bytearray)):
        try:
            return (type(v).__name__, id(v), len(v), hash(repr(sorted(map(repr, v)))[:2000]) if isinstance(v, (dict, set)) else hash(repr(v)[:2000]))
        except Exception:
            return (type(v).__name__, id(v), len(v))
    if isinstance(v, np.ndarray):
        return ("ndarray", id(v), v.shape, hash(v.tobytes()) if v.dtype != object and v.size < 10000 else 0)
    if isinstance(v, (int, float, str, bool, type(None), complex)):
        return ("scalar", v)
    return ("obj", id(v))


def snapshot(modnames):
    snap = {}
    for mn in modnames:
        mod = importlib.import_module(mn)
        for name, v in list(vars(mod).items()):
            if name.startswith(_IGNORE_PREFIX) or isinstance(v, (types.ModuleType, types.FunctionType)):
                continue
            if inspect.isclass(v):
                if getattr(v, "__module__", None) != mn:
                    continue
                for an, av in list(vars(v).items()):
                    if an.startswith("__") or isinstance(av, (types.FunctionType, staticmethod, classmethod, property)):
                        continue
                    snap[f"{mn}:{name}.{an}"] = _fp(av)
                snap[f"{mn}:{name}#attrs"] = ("names", tuple(sorted(k for k in vars(v) if not k.startswith("__"))))
                continue
            snap[f"{mn}:{name}"] = _fp(v)
        snap[f"{mn}#names"] = ("names", tuple(sorted(k for k in vars(mod) if not k.startswith(_IGNORE_PREFIX))))
    return snap


def diff(a, b):
    out = []
    for k in sorted(set(a) | set(b)):
        if a.get(k) != b.get(k):
            out.append(k)
    return out
