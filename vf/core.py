"""Contract registry and the contract context (one text, two evaluators: z3 terms / concrete floats)."""
from __future__ import annotations

import itertools
import math
import random
from fractions import Fraction

import numpy as np
import z3

from .sym import PathCtx, Sym, SymBool, Unsupported, is_sym, lift
from .symnp import ShapeOnly, _has_sym

REGISTRY: dict[str, list["Obligation"]] = {}


class Reject(Exception):
    """Concrete sample outside the precondition."""


class Obligation:
    def __init__(self, name, fn, kind, cases, funcs, mods, stubs, assumes, samples, note, tier, skip, budget,
                 cite, tol=None):
        self.tol = tol
        self.name, self.fn, self.kind = name, fn, kind
        self.cases = cases
        self.funcs, self.mods, self.stubs = funcs, mods, stubs
        self.assumes, self.samples, self.note, self.tier = assumes, samples, note, tier
        self.skip = skip
        self.budget = budget
        self.cite = cite

    @property
    def prop(self):
        return self.name.split(".")[0]

    def instances(self, tier):
        cs = self.cases(tier) if callable(self.cases) else self.cases
        out = []
        for c in cs:
            label = ",".join(f"{k}={_short(v)}" for k, v in c.items())
            out.append((f"{self.name}[{label}]" if label else self.name, c))
        return out


def _short(v):
    if isinstance(v, (tuple, list)):
        return "x".join(str(e) for e in v) if all(isinstance(e, (int, str)) for e in v) else str(v)
    return str(v)


def ob(name, kind="H", cases=({},), funcs=(), mods=(), stubs=None, assumes=(), samples=(3, 12), note="",
       tier="quick", skip=(), budget=None, cite="", tol=None):
    """Register an obligation.
    kind:  H  real function on symbols, all paths, z3   (proved / refuted)
           T  AST -> VC / table enumeration via z3          (proved / refuted)
           X  exact algebra (sympy)                         (proved / refuted)
           L  lemma over contracts (z3)                     (proved lemma)
           B  bounded stand-in: concrete evaluation of the contract on the real uninstrumented function
    cases: list of dicts (or callable tier -> list); one obligation instance per case
    funcs: qualified names of the /repo functions under contract (source hashes go to the evidence)
    mods:  modules whose functions are instrumented for this obligation (H only)
    stubs: dict dotted-name -> callable factory(ctx) giving the assumed-contract stub (R3)
    samples: (quick, thorough) number of random concrete companion runs per instance
    """
    def deco(fn):
        o = Obligation(name, fn, kind, cases, tuple(funcs), tuple(mods), stubs or {}, tuple(assumes), samples,
                       note, tier, tuple(skip), budget, cite, tol)
        REGISTRY.setdefault(o.prop, []).append(o)
        return fn
    return deco


# ---- truth / equality helpers usable on both evaluators -----------------------------------------------

def _flat(x):
    if isinstance(x, np.ndarray):
        return list(x.flat)
    if isinstance(x, (list, tuple)):
        r = []
        for e in x:
            r.extend(_flat(e))
        return r
    return [x]


def tobool(c):
    """-> z3 BoolRef (if symbolic) or Python bool."""
    if isinstance(c, SymBool):
        return c.t
    if isinstance(c, z3.BoolRef):
        return c
    if isinstance(c, (bool, np.bool_)):
        return bool(c)
    if isinstance(c, (np.ndarray, list, tuple)):
        parts = [tobool(e) for e in _flat(c)]
        if any(isinstance(p, z3.BoolRef) for p in parts):
            return z3.And(*[p if isinstance(p, z3.BoolRef) else z3.BoolVal(p) for p in parts])
        return all(parts)
    if isinstance(c, Sym):
        return c.t != 0
    raise TypeError(f"not a condition: {type(c).__name__}")


class Tol:
    rel = 1e-8
    abs = 1e-9


def _eq_scalar(a, b):
    if is_sym(a) or is_sym(b):
        at, bt = lift(a), lift(b)
        if z3.is_bool(at) or z3.is_bool(bt):
            return at == bt
        if at.is_int() and bt.is_real():
            at = z3.ToReal(at)
        elif at.is_real() and bt.is_int():
            bt = z3.ToReal(bt)
        return at == bt
    if a is None or b is None:
        return a is b
    if isinstance(a, (str, bytes)) or isinstance(b, (str, bytes)):
        return a == b
    try:
        fa, fb = float(a), float(b)
    except (TypeError, ValueError):
        return bool(a == b)
    if fa == fb:
        return True
    if math.isnan(fa) or math.isnan(fb):
        return False
    return abs(fa - fb) <= Tol.abs + Tol.rel * max(abs(fa), abs(fb))


def eq(a, b):
    """Elementwise equality of scalars / arrays / nested lists: exact over the reals on symbols, to relative
    1e-8 on floats."""
    if isinstance(a, ShapeOnly) or isinstance(b, ShapeOnly):
        raise Unsupported("eq on ShapeOnly")
    sa, sb = np.shape(a) if not is_sym(a) else (), np.shape(b) if not is_sym(b) else ()
    if sa != sb:
        try:
            np.broadcast_shapes(sa, sb)
        except ValueError:
            return False
        if sa != () and sb != ():
            return False      # shapes must agree (no silent broadcasting in contracts)
    if sa == () and sb == ():
        return _wrap(_eq_scalar(_unbox(a), _unbox(b)))
    fa, fb = _flat(a), _flat(b)
    if sa == ():
        fa = fa * len(fb)
    if sb == ():
        fb = fb * len(fa)
    parts = [_eq_scalar(x, y) for x, y in zip(fa, fb)]
    if any(isinstance(p, z3.BoolRef) for p in parts):
        return SymBool(z3.And(*[p if isinstance(p, z3.BoolRef) else z3.BoolVal(bool(p)) for p in parts]))
    return all(parts)


def _unbox(a):
    if isinstance(a, np.ndarray) and a.shape == ():
        return a[()]
    return a


def _wrap(r):
    return SymBool(r) if isinstance(r, z3.BoolRef) else r


def and_(*cs):
    ps = [tobool(c) for c in cs]
    if any(isinstance(p, z3.BoolRef) for p in ps):
        return SymBool(z3.And(*[p if isinstance(p, z3.BoolRef) else z3.BoolVal(p) for p in ps]))
    return all(ps)


def or_(*cs):
    ps = [tobool(c) for c in cs]
    if any(isinstance(p, z3.BoolRef) for p in ps):
        return SymBool(z3.Or(*[p if isinstance(p, z3.BoolRef) else z3.BoolVal(p) for p in ps]))
    return any(ps)


def not_(c):
    p = tobool(c)
    return SymBool(z3.Not(p)) if isinstance(p, z3.BoolRef) else (not p)


def implies(a, b):
    return or_(not_(a), b)


def le(a, b):
    if is_sym(a) or is_sym(b):
        return Sym(lift(a)) <= b
    return float(a) <= float(b) + Tol.abs + Tol.rel * max(abs(float(a)), abs(float(b)))


def lt(a, b):
    if is_sym(a) or is_sym(b):
        return Sym(lift(a)) < b
    return float(a) < float(b)


def ite(c, a, b):
    from .sym import sym_if
    if isinstance(c, (bool, np.bool_)):
        return a if c else b
    return sym_if(c, a, b)


def same(x, y):
    """Token identity of two arrays: equal shapes and, element by element, the very same symbol (symbolic tokens) or equal
    numbers (concrete entries).  Never forks: a symbol compared with a number is simply 'different'."""
    x, y = np.asarray(x), np.asarray(y)
    if x.shape != y.shape:
        return False
    for p, q in zip(x.flat, y.flat):
        if is_sym(p) or is_sym(q):
            if p is not q:
                return False
        elif not _eq_scalar(p, q):
            return False
    return True


def floor_(x):
    return x.__floor__() if isinstance(x, Sym) else math.floor(x)


# ---- context -----------------------------------------------------------------------------------------

class Ctx:
    """Passed to every obligation function.  mode 'sym': inputs are z3-backed symbols, ensure() collects
    verification conditions.  mode 'conc': inputs are concrete (random within the declared ranges, or taken
    from a solver model / replay file), ensure() evaluates."""

    def __init__(self, mode, values=None, rng=None, tier="quick"):
        self.mode = mode
        self.values = values           # dict name -> number (replay) or None (random)
        self.rng = rng or random.Random(0)
        self.tier = tier
        self.reset()

    def reset(self):
        self.pre = []          # z3 formulas (sym)
        self.posts = []        # (label, z3 formula | bool)
        self.witnesses = {}    # name -> z3 formula | bool
        self.inputs = {}       # name -> z3 const (sym) / value (conc)
        self.ranges = {}       # name -> declared range (sym): used to sample parameter values for the cover check
        self.solved = set()    # names of stub outputs determined by equations (left free when the cover check samples parameters)
        self.covers = []
        self.used_stubs = []
        self.notes = []
        self.evals = 0

    @property
    def sym(self):
        return self.mode == "sym"

    # -- inputs
    def _assume_t(self, t):
        self.pre.append(t)
        if PathCtx.cur is not None:
            PathCtx.cur.solver.add(t)

    def real(self, name, lo=None, hi=None, pos=False, nonzero=False, sample=None):
        """Real input.  lo/hi are *closed* bounds of the precondition; pos => > 0.  `sample` = (lo, hi) range
        for random concrete draws (default derived from the bounds)."""
        if not self.sym and name in self.inputs:
            return self.inputs[name]        # same name => same input (contracts may re-declare to rebuild an object)
        if self.sym:
            v = z3.Real(name)
            self.inputs[name] = v
            self.ranges[name] = ("real", lo, hi, pos, nonzero, sample)
            if lo is not None:
                self._assume_t(v >= lift(lo))
            if hi is not None:
                self._assume_t(v <= lift(hi))
            if pos or (lo is not None and not is_sym(lo) and lo > 0):
                self._assume_t(v > 0)
                if PathCtx.cur is not None:
                    PathCtx.cur.known_pos.add(name)
            if nonzero:
                self._assume_t(v != 0)
            return Sym(v)
        if self.values is not None and name in self.values:
            x = self.values[name]
            x = float(Fraction(x)) if isinstance(x, str) else float(x)
        else:
            slo, shi = sample if sample else (lo if lo is not None else (0.05 if pos else -8.0),
                                              hi if hi is not None else ((lo if lo is not None else 0) + 8.0))
            if pos and slo <= 0:
                slo = 0.05
            # dyadic rationals: exactly representable, keeps float evaluation faithful
            x = slo + (shi - slo) * (self.rng.randrange(1, 1 << 12) / float(1 << 12))
            if nonzero and x == 0:
                x = (shi - slo) / 4096.0
        self.inputs[name] = x
        return x

    def int(self, name, lo=None, hi=None, sample=None):
        if not self.sym and name in self.inputs:
            return self.inputs[name]
        if self.sym:
            v = z3.Int(name)
            self.inputs[name] = v
            self.ranges[name] = ("int", lo, hi, False, False, sample)
            if lo is not None:
                self._assume_t(v >= lift(lo))
            if hi is not None:
                self._assume_t(v <= lift(hi))
            return Sym(v)
        if self.values is not None and name in self.values:
            x = int(self.values[name])
        else:
            slo, shi = sample if sample else (lo if lo is not None else -5, hi if hi is not None else (lo if lo is not None else -5) + 9)
            x = self.rng.randint(int(slo), int(shi))
        self.inputs[name] = x
        return x

    def bool(self, name):
        if self.sym:
            v = z3.Bool(name)
            self.inputs[name] = v
            return SymBool(v)
        x = bool(self.values[name]) if self.values is not None and name in self.values else bool(self.rng.getrandbits(1))
        self.inputs[name] = x
        return x

    def reals(self, name, n, **k):
        return [self.real(f"{name}{i}", **k) for i in range(n)]

    def ints(self, name, n, **k):
        return [self.int(f"{name}{i}", **k) for i in range(n)]

    def array(self, name, shape, kind="real", dtype=None, **k):
        """Array of fresh symbols (sym) / numbers (conc).  Symbols double as *tokens*: a postcondition
        `out[v] == a[w]` that holds for all valuations pins the data placement."""
        shape = tuple(int(s) for s in shape)
        mk = self.real if kind == "real" else self.int
        if self.sym:
            a = np.empty(shape, dtype=object)
            for idx in np.ndindex(*shape):
                a[idx] = mk(name + "_" + "_".join(map(str, idx)), **k)
            return a
        a = np.empty(shape, dtype=dtype or (float if kind == "real" else int))
        for idx in np.ndindex(*shape):
            a[idx] = mk(name + "_" + "_".join(map(str, idx)), **k)
        return a

    def shape_array(self, shape, dtype=float, fill=None):
        """Array stand-in whose data are irrelevant: ShapeOnly (symbolic extents allowed) in sym mode, a real
        ndarray of that shape in conc mode."""
        if self.sym:
            return ShapeOnly(shape, dtype)
        shp = tuple(int(s) for s in shape)
        if fill is None:
            r = np.random.default_rng(self.rng.randrange(1 << 30))
            return r.random(shp).astype(dtype) if np.dtype(dtype).kind == "f" else r.integers(0, 200, shp).astype(dtype)
        return np.full(shp, fill, dtype=dtype)

    # -- contract clauses
    def assume(self, cond):
        c = tobool(cond)
        if isinstance(c, z3.BoolRef):
            self._assume_t(c)
        elif not c:
            if self.sym:
                self._assume_t(z3.BoolVal(False))
            raise Reject()

    def ensure(self, label, cond):
        self.posts.append((label, tobool(cond)))

    def witness(self, name, cond):
        self.witnesses[name] = tobool(cond)

    def cover(self, label, cond=True):
        self.covers.append((label, tobool(cond)))

    def tick(self, n=1):
        """count one enumerated concrete case evaluated inside this obligation (evidence: evaluations)"""
        self.evals += n

    def note(self, text):
        self.notes.append(text)

    def stub_used(self, name):
        if name not in self.used_stubs:
            self.used_stubs.append(name)

    def fresh_real(self, stem):
        """Unconstrained fresh real (for stubs returning 'some value')."""
        if self.sym:
            pc = PathCtx.cur
            v = pc.fresh_real(stem) if pc is not None else z3.Real(f"__{stem}")
            return Sym(v)
        return self.rng.uniform(-1, 1)


def product_cases(**axes):
    keys = list(axes)
    return [dict(zip(keys, vals)) for vals in itertools.product(*[axes[k] for k in keys])]
