"""Mechanical instrumentation of the real darsia functions (DESIGN.md §2.2).

For every function defined in the anchored modules the source is re-read from disk (inspect.getsource on the
installed editable package = /repo/src as it is now), rewritten by the rules below, compiled, and the resulting
code object is installed *in place* (`fn.__code__ = new`), so every alias, bound method, property, static /
class method and decorator wrapper keeps pointing at the very same function object.

Rewrites (complete list of the differences to the code that runs in production):
  R1  X.astype(T ...)               -> __vf_astype(X, T ...)
  R2  global name `np` (numpy)      -> __vf_np    (SymNP: defers to numpy on non-symbolic data)
      global name `math`            -> __vf_math
      calls  int( float( max( min( round( range( isinstance(   -> __vf_int( ...  (only in call position and
      only when the name is not rebound locally / globally)
  R3  names listed in `stubs`       -> contract stubs (assumed contracts of external dependencies); the
      stub replaces a dotted global reference such as cv2.resize -> __vf_stub_cv2_resize
  R5  comparisons  a < b  etc.      -> __vf_cmp('<', a, b)   (elementwise-symbolic on object arrays; identical
      to the Python operator otherwise).  Chained comparisons are left untouched.
  R6  true division  a / b          -> __vf_div(a, b)   (in symbolic mode the quotient of two plain integers is the exact
      rational instead of its rounded double — the real-number semantics of assumption A1; identical to a / b otherwise)
  R7  augmented assignment to a name / attribute  a op= b  -> a = __vf_iop('op', a, b)  (= operator.i<op>(a, b), Python's own meaning; only
      when numpy refuses to store symbols into a numeric buffer the update goes to an object-dtype copy)
Nothing is dropped.
"""
from __future__ import annotations

import ast
import builtins
import hashlib
import inspect
import math
import sys
import textwrap
import types

import numpy

from . import symnp
from .symnp import BUILTIN_SHIMS, SymMath, SymNP

_NP = SymNP()
_MATH = SymMath()
_CMP = {ast.Lt: "<", ast.LtE: "<=", ast.Gt: ">", ast.GtE: ">=", ast.Eq: "==", ast.NotEq: "!="}

_AUG = {ast.Add: "+", ast.Sub: "-", ast.Mult: "*", ast.Div: "/", ast.FloorDiv: "//", ast.Mod: "%", ast.Pow: "**", ast.MatMult: "@", ast.BitAnd: "&", ast.BitOr: "|",
        ast.BitXor: "^", ast.LShift: "<<", ast.RShift: ">>"}

_installed = {}   # fn -> original code


class _Rewriter(ast.NodeTransformer):
    def __init__(self, g, local_names, stubs):
        self.g = g
        self.local = local_names
        self.stubs = stubs          # dict dotted-name -> injected global name
        self.used = set()

    def _is_global(self, name, obj=None):
        if name in self.local:
            return False
        if obj is None:
            return name not in self.g          # builtin not shadowed at module level
        return self.g.get(name) is obj

    def visit_Name(self, node):
        if isinstance(node.ctx, ast.Load):
            if node.id == "np" and self._is_global("np", numpy):
                self.used.add("np")
                return ast.copy_location(ast.Name("__vf_np", ast.Load()), node)
            if node.id == "math" and self._is_global("math", math):
                self.used.add("math")
                return ast.copy_location(ast.Name("__vf_math", ast.Load()), node)
            if node.id in self.stubs and node.id not in self.local:
                self.used.add(node.id)
                return ast.copy_location(ast.Name(self.stubs[node.id], ast.Load()), node)
        return node

    def visit_Attribute(self, node):
        # dotted stub: a.b.c
        dotted = _dotted(node)
        if dotted is not None and dotted in self.stubs and dotted.split(".")[0] not in self.local:
            self.used.add(dotted)
            return ast.copy_location(ast.Name(self.stubs[dotted], ast.Load()), node)
        self.generic_visit(node)
        return node

    def visit_Call(self, node):
        self.generic_visit(node)
        f = node.func
        if isinstance(f, ast.Attribute) and f.attr == "astype":
            self.used.add("astype")
            return ast.copy_location(
                ast.Call(func=ast.Name("__vf_astype", ast.Load()), args=[f.value] + node.args,
                         keywords=node.keywords), node)
        if isinstance(f, ast.Name) and f.id in BUILTIN_SHIMS and self._is_global(f.id):
            self.used.add(f.id)
            node.func = ast.copy_location(ast.Name("__vf_" + f.id, ast.Load()), f)
        return node

    def visit_BinOp(self, node):
        self.generic_visit(node)
        if isinstance(node.op, ast.Div):
            return ast.copy_location(ast.Call(func=ast.Name("__vf_div", ast.Load()), args=[node.left, node.right], keywords=[]), node)
        return node

    def visit_AugAssign(self, node):
        self.generic_visit(node)
        sym = _AUG.get(type(node.op))
        if sym is None or not isinstance(node.target, (ast.Name, ast.Attribute)):
            return node
        load = ast.Name(node.target.id, ast.Load()) if isinstance(node.target, ast.Name) else ast.Attribute(node.target.value, node.target.attr, ast.Load())
        call = ast.Call(func=ast.Name("__vf_iop", ast.Load()), args=[ast.Constant(sym), load, node.value], keywords=[])
        return ast.copy_location(ast.Assign(targets=[node.target], value=call), node)

    def visit_Compare(self, node):
        self.generic_visit(node)
        if len(node.ops) == 1 and type(node.ops[0]) in _CMP:
            # leave comparisons against string / None / bool constants alone
            for side in (node.left, node.comparators[0]):
                if isinstance(side, ast.Constant) and isinstance(side.value, (str, type(None), bytes)):
                    return node
            return ast.copy_location(
                ast.Call(func=ast.Name("__vf_cmp", ast.Load()),
                         args=[ast.Constant(_CMP[type(node.ops[0])]), node.left, node.comparators[0]],
                         keywords=[]), node)
        return node


def _dotted(node):
    parts = []
    while isinstance(node, ast.Attribute):
        parts.append(node.attr)
        node = node.value
    if isinstance(node, ast.Name):
        parts.append(node.id)
        return ".".join(reversed(parts))
    return None


def _find_code(code, name, firstlineno):
    for c in code.co_consts:
        if isinstance(c, types.CodeType):
            if c.co_name == name and c.co_firstlineno == firstlineno:
                return c
            r = _find_code(c, name, firstlineno)
            if r is not None:
                return r
    return None


def source_of(fn):
    return textwrap.dedent(inspect.getsource(fn))


def source_hash(fn):
    try:
        return hashlib.sha256(source_of(fn).encode()).hexdigest()[:16]
    except Exception:
        return "unavailable"


def instrument_function(fn, stubs=None):
    """Replace fn.__code__ by the instrumented version.  Returns True on success."""
    if fn in _installed:
        return True
    if not isinstance(fn, types.FunctionType):
        return False
    stubs = stubs or {}
    try:
        lines, first = inspect.getsourcelines(fn)
    except (OSError, TypeError):
        return False
    src = textwrap.dedent("".join(lines))
    try:
        tree = ast.parse(src)
    except SyntaxError:
        return False
    fdef = tree.body[0]
    if not isinstance(fdef, (ast.FunctionDef,)):
        return False
    if fdef.name != fn.__code__.co_name:
        return False
    ndeco = len(fdef.decorator_list)
    fdef.decorator_list = []
    code0 = fn.__code__
    local_names = set(code0.co_varnames) | set(code0.co_cellvars) | set(code0.co_freevars)
    # names local to nested functions are also protected (conservative)
    for c in code0.co_consts:
        if isinstance(c, types.CodeType):
            local_names |= set(c.co_varnames)
    g = fn.__globals__
    stubnames = {k: "__vf_stub_" + k.replace(".", "_") for k in stubs}
    rw = _Rewriter(g, local_names, stubnames)
    fdef = rw.visit(fdef)
    free = list(code0.co_freevars)
    if free:
        factory = ast.FunctionDef(
            name="__vf_factory",
            args=ast.arguments(posonlyargs=[], args=[ast.arg(v) for v in free], kwonlyargs=[], kw_defaults=[],
                               defaults=[]),
            body=[fdef], decorator_list=[], type_params=[])
        mod = ast.Module(body=[factory], type_ignores=[])
    else:
        mod = ast.Module(body=[fdef], type_ignores=[])
    ast.fix_missing_locations(mod)
    # keep the original line numbers (decorators shift the def line)
    ast.increment_lineno(mod, first - 1)
    flags = 0
    import __future__
    if code0.co_flags & __future__.annotations.compiler_flag:
        flags |= __future__.annotations.compiler_flag
    try:
        top = compile(mod, code0.co_filename, "exec", flags=flags, dont_inherit=True)
    except SyntaxError:
        return False
    def _child(code, name):
        for c in code.co_consts:
            if isinstance(c, types.CodeType) and c.co_name == name:
                return c
        return None
    new = top
    if free:
        new = _child(new, "__vf_factory")
    new = _child(new, fdef.name) if new is not None else None
    if new is None:
        return False
    if len(new.co_freevars) != len(code0.co_freevars):
        return False
    # inject helper globals into the function's real module namespace (added names only)
    g.setdefault("__vf_np", _NP)
    g.setdefault("__vf_math", _MATH)
    g.setdefault("__vf_astype", symnp.astype)
    g.setdefault("__vf_cmp", symnp.vf_cmp)
    g.setdefault("__vf_div", symnp.vf_div)
    g.setdefault("__vf_iop", symnp.vf_iop)
    for k, v in BUILTIN_SHIMS.items():
        g.setdefault("__vf_" + k, v)
    for k, v in stubs.items():
        g[stubnames[k]] = v
    _installed[fn] = code0
    fn.__code__ = new
    return True


def functions_of(obj, modname=None):
    """All plain functions defined in a module or class (methods, properties, static/class methods)."""
    out = []
    if inspect.ismodule(obj):
        modname = obj.__name__
        for name, v in list(vars(obj).items()):
            if isinstance(v, types.FunctionType) and v.__module__ == modname:
                out.append((f"{modname}:{name}", v))
            elif inspect.isclass(v) and v.__module__ == modname:
                out.extend(functions_of(v, modname))
        return out
    cls = obj
    modname = modname or cls.__module__
    for name, v in list(vars(cls).items()):
        f = None
        if isinstance(v, types.FunctionType):
            f = [v]
        elif isinstance(v, (staticmethod, classmethod)):
            f = [v.__func__]
        elif isinstance(v, property):
            f = [x for x in (v.fget, v.fset, v.fdel) if x is not None]
        if f:
            for x in f:
                if isinstance(x, types.FunctionType) and x.__module__ == modname:
                    out.append((f"{modname}:{cls.__qualname__}.{name}", x))
    return out


def instrument_modules(modnames, stubs=None, skip=()):
    """Instrument every function of the listed modules.  Returns (done, failed) name lists."""
    import importlib
    done, failed = [], []
    for mn in modnames:
        mod = importlib.import_module(mn)
        for qn, fn in functions_of(mod):
            if any(s in qn for s in skip):
                continue
            (done if instrument_function(fn, stubs) else failed).append(qn)
    return done, failed


def restore_all():
    for fn, code in list(_installed.items()):
        fn.__code__ = code
    _installed.clear()


def resolve(qualname):
    """'darsia.image.image:Image.subregion' -> underlying function object."""
    import importlib
    mn, _, path = qualname.partition(":")
    obj = importlib.import_module(mn)
    parent = None
    for part in path.split("."):
        parent = obj
        obj = inspect.getattr_static(obj, part) if inspect.isclass(obj) else getattr(obj, part)
    if isinstance(obj, (staticmethod, classmethod)):
        obj = obj.__func__
    if isinstance(obj, property):
        obj = obj.fget
    return obj
