"""numpy / math / builtin shims used by the instrumenter (rewrite R2 of DESIGN.md).

SymNP forwards every attribute to numpy except the handful listed here, and those defer to numpy too
whenever no symbolic value is involved, so that instrumented code behaves as the original on concrete
data (checked differentially by the runner).
"""
from __future__ import annotations

import builtins
import math as _math
import types

import numpy as _np
import z3

from .sym import (Sym, SymBool, Unsupported, cast_scalar, is_sym, lift, sym_if, sym_max, sym_min,
                  sym_sqrt)

_NUMERIC_KINDS = "iufb"


class ShapeOnly:
    """Array stand-in with a (possibly symbolic) shape and no data — for code that only reads
    `.shape` / `.dtype` / `.ndim` and takes basic slices (numpy slice clipping, assumption A4)."""

    def __init__(self, shape, dtype=_np.dtype(float)):
        self.shape = tuple(shape)
        self.dtype = _np.dtype(dtype)

    @property
    def ndim(self):
        return len(self.shape)

    def __len__(self):
        return self.shape[0]

    def copy(self):
        return ShapeOnly(self.shape, self.dtype)

    def __deepcopy__(self, memo):
        return ShapeOnly(self.shape, self.dtype)

    def astype(self, t, *a, **k):
        return ShapeOnly(self.shape, t)

    @staticmethod
    def _clip_index(v, n, default):
        """numpy normalisation of a slice bound (step 1): None -> default, negative -> +n, clip to [0,n]."""
        if v is None:
            return default
        v = sym_if(Sym(lift(v)) < 0, v + n, v) if is_sym(v) or is_sym(n) else (v + n if v < 0 else v)
        v = sym_max(v, 0)
        v = sym_min(v, n)
        return v

    def __getitem__(self, key):
        key = key if isinstance(key, tuple) else (key,)
        if any(k is Ellipsis for k in key):
            i = [j for j, k in enumerate(key) if k is Ellipsis][0]
            fill = len(self.shape) - (len(key) - 1)
            key = key[:i] + (slice(None),) * fill + key[i + 1:]
        new = []
        for n, sl in zip(self.shape, key):
            if isinstance(sl, slice):
                if sl.step not in (None, 1):
                    raise Unsupported("ShapeOnly: strided slice")
                a = ShapeOnly._clip_index(sl.start, n, 0)
                b = ShapeOnly._clip_index(sl.stop, n, n)
                new.append(sym_max(b - a, 0))
            elif isinstance(sl, (int, _np.integer, Sym)):
                pass  # integer index removes the axis
            else:
                raise Unsupported(f"ShapeOnly: index of type {type(sl).__name__}")
        return ShapeOnly(new + list(self.shape[len(key):]), self.dtype)


def _has_sym(x) -> bool:
    if is_sym(x):
        return True
    if isinstance(x, _np.ndarray):
        if x.dtype != object:
            return False
        return any(is_sym(e) for e in x.flat)
    if isinstance(x, (list, tuple)):
        return any(_has_sym(e) for e in x)
    return False


def _obj(x):
    if isinstance(x, _np.ndarray):
        return x
    a = _np.empty((), dtype=object)
    if is_sym(x):
        a[()] = x
        return a
    return _np.asarray(x, dtype=object) if _has_sym(x) else _np.asarray(x)


def _map(f, *xs):
    """Elementwise map with broadcasting over object arrays; returns scalar for 0-d."""
    arrs = [_obj(x) for x in xs]
    b = _np.broadcast(*arrs)
    out = _np.empty(b.shape, dtype=object)
    out.flat = [f(*vals) for vals in b]
    sub = [type(a) for a in arrs if type(a) is not _np.ndarray]
    if out.shape == ():
        return out[()]
    return out.view(sub[0]) if sub else out


def _is_numeric_dtype(dt):
    if dt is None:
        return False
    try:
        return _np.dtype(dt).kind in _NUMERIC_KINDS
    except TypeError:
        return False


class SymArr(_np.ndarray):
    """object ndarray whose boolean-mask assignment accepts a symbolic mask: a[mask] = v  ==>  a = where(mask, v, a)."""

    def __setitem__(self, key, value):
        if isinstance(key, _np.ndarray) and key.dtype == object and key.shape == self.shape and _has_sym(key):
            val = _np.broadcast_to(_np.asarray(value, dtype=object), self.shape) if _np.ndim(value) == 0 else None
            if val is None:
                raise Unsupported("symbolic boolean-mask assignment of a non-scalar value")
            for idx in _np.ndindex(*self.shape):
                k = key[idx]
                cur = _np.ndarray.__getitem__(self, idx)
                new = sym_if(k, val[idx], cur) if is_sym(k) else (val[idx] if k else cur)
                _np.ndarray.__setitem__(self, idx, new)
            return
        _np.ndarray.__setitem__(self, key, value)


def _record_guard(kind, a, b, args, kw):
    """Tolerance guards (np.isclose / np.allclose / math.isclose) met on symbolic operands are idealised to equality in the proof (assumption A8);
    each one is recorded so that the runner can PROBE it: solve for inputs that sit inside the tolerance without being equal and run the contract
    concretely on the real code there."""
    from .sym import PathCtx
    pc = PathCtx.cur
    if pc is None:
        return
    try:
        rtol = float(args[0]) if len(args) > 0 else float(kw.get("rtol", 1e-5))
        atol = float(args[1]) if len(args) > 1 else float(kw.get("atol", 1e-8))
        pa, pb = _np.broadcast_arrays(_obj(a), _obj(b))
        pairs = []
        for p, q in zip(pa.flat, pb.flat):
            if is_sym(p) or is_sym(q):
                pairs.append((lift(p), lift(q)))
        if pairs and len(pc.guards) < 40:
            pc.guards.append((kind, pairs[:64], rtol, atol))
    except Exception:      # noqa: BLE001 - recording must never disturb the run
        pass


class Mode:
    """Global switch: when symbolic is True, numeric allocations become object arrays."""
    symbolic = False


def astype(x, t, *a, **k):
    """R1: X.astype(T)."""
    if isinstance(x, (Sym, SymBool)):
        return cast_scalar(x, t)
    if isinstance(x, ShapeOnly):
        return x.astype(t)
    if isinstance(x, _np.ndarray) and x.dtype == object and _has_sym(x):
        out = _np.empty(x.shape, dtype=object)
        out.flat = [cast_scalar(e, t) for e in x.flat]
        return out.view(type(x)) if type(x) is not _np.ndarray else out
    return x.astype(t, *a, **k)    # no symbol inside: numpy's own cast (object arrays of concrete numbers become native again)


def _lin_norm(x, ord=None, axis=None, keepdims=False):
    x = _obj(x)
    if not _has_sym(x):
        return _np.linalg.norm(x.astype(float) if x.dtype == object else x, ord=ord, axis=axis, keepdims=keepdims)
    if ord not in (None, 2, "fro"):
        if ord == 1 and x.ndim == 1:
            return _np.sum(_map(abs, x))
        if ord == _np.inf and x.ndim == 1:
            return SymNP().max(_map(abs, x))
        raise Unsupported(f"norm ord={ord}")
    sq = x * x
    s = _np.sum(sq, axis=axis, keepdims=keepdims)
    return _map(lambda e: sym_sqrt(e, nonneg=True), s)       # a sum of squares: the domain condition is trivially met


def _det(m):
    m = _obj(m)
    n = m.shape[0]
    if n == 1:
        return m[0, 0]
    if n == 2:
        return m[0, 0] * m[1, 1] - m[0, 1] * m[1, 0]
    if n == 3:
        return (m[0, 0] * (m[1, 1] * m[2, 2] - m[1, 2] * m[2, 1])
                - m[0, 1] * (m[1, 0] * m[2, 2] - m[1, 2] * m[2, 0])
                + m[0, 2] * (m[1, 0] * m[2, 1] - m[1, 1] * m[2, 0]))
    raise Unsupported("det of n>3 symbolic matrix")


def _inv(m):
    m = _obj(m)
    if not _has_sym(m):
        return _np.linalg.inv(m.astype(float) if m.dtype == object else m)
    n = m.shape[0]
    d = _det(m)
    from .sym import PathCtx
    ctx = PathCtx.cur
    if ctx is not None and isinstance(d, Sym):
        ctx.side.append(("inv-nonsingular", d.t != 0))
    out = _np.empty((n, n), dtype=object)
    if n == 1:
        out[0, 0] = 1 / d
    elif n == 2:
        out[0, 0], out[0, 1], out[1, 0], out[1, 1] = m[1, 1] / d, -m[0, 1] / d, -m[1, 0] / d, m[0, 0] / d
    elif n == 3:
        for i in range(3):
            for j in range(3):
                r = [k for k in range(3) if k != j]
                c = [k for k in range(3) if k != i]
                minor = m[r[0], c[0]] * m[r[1], c[1]] - m[r[0], c[1]] * m[r[1], c[0]]
                out[i, j] = ((-1) ** (i + j)) * minor / d
    else:
        raise Unsupported("inverse of n>3 symbolic matrix")
    return out


class _Linalg(types.ModuleType):
    def __init__(self):
        super().__init__("symnp.linalg")

    def __getattr__(self, name):
        return getattr(_np.linalg, name)

    norm = staticmethod(_lin_norm)
    det = staticmethod(lambda m: _det(m) if _has_sym(_obj(m)) else _np.linalg.det(m))
    inv = staticmethod(_inv)


class SymNP(types.ModuleType):
    def __init__(self):
        super().__init__("symnp")
        self.linalg = _Linalg()

    def __getattr__(self, name):
        return getattr(_np, name)

    # ---- allocation -------------------------------------------------------------------------------
    @staticmethod
    def _dt(dtype, src=None):
        """float allocations become object arrays in symbolic mode; integer allocations only when they are
        modelled on an object array (e.g. empty_like(symbolic coordinates, dtype=int)) — plain integer index
        arrays (np.zeros(n, dtype=int)) stay native so that they remain valid indices."""
        if Mode.symbolic and _is_numeric_dtype(dtype):
            k = _np.dtype(dtype).kind
            if k == "f":
                return object
            if k in "iu" and isinstance(src, _np.ndarray) and src.dtype == object:
                return object
        return dtype

    def zeros(self, shape, dtype=float, **k):
        dt = self._dt(dtype)
        if Mode.symbolic and dtype is bool:
            r = _np.empty(shape, dtype=object).view(SymArr)
            r[...] = False
            return r
        if dt is object:
            r = _np.empty(shape, dtype=object)
            r[...] = 0 if _np.dtype(dtype).kind in "iu" else 0.0
            return r
        return _np.zeros(shape, dtype=dtype, **k)

    def ones(self, shape, dtype=float, **k):
        dt = self._dt(dtype)
        if dt is object:
            r = _np.empty(shape, dtype=object)
            r[...] = 1 if _np.dtype(dtype).kind in "iu" else 1.0
            return r
        return _np.ones(shape, dtype=dtype, **k)

    def empty(self, shape, dtype=float, **k):
        dt = self._dt(dtype)
        if dt is object:
            r = _np.empty(shape, dtype=object)
            r[...] = 0.0
            return r
        return _np.empty(shape, dtype=dtype, **k)

    def full(self, shape, fill_value, dtype=None, **k):
        if is_sym(fill_value) or (dtype is not None and self._dt(dtype) is object):
            r = _np.empty(shape, dtype=object)
            r[...] = fill_value
            return r
        return _np.full(shape, fill_value, dtype=dtype, **k)

    def _like(self, x, dtype, fill):
        if isinstance(x, ShapeOnly):
            raise Unsupported("*_like of ShapeOnly")
        src_obj = isinstance(x, _np.ndarray) and x.dtype == object
        want = dtype if dtype is not None else (x.dtype if isinstance(x, _np.ndarray) else None)
        if (dtype is not None and self._dt(dtype, x) is object) or (dtype is None and src_obj and Mode.symbolic):
            r = _np.empty(_np.shape(x), dtype=object)
            if fill is not None:
                r[...] = fill
            else:
                r[...] = 0.0
            if isinstance(x, _np.ndarray) and type(x) is not _np.ndarray:
                r = r.view(type(x))
            return r
        return None

    def zeros_like(self, x, dtype=None, **k):
        r = self._like(x, dtype, 0.0)
        return r if r is not None else _np.zeros_like(x, dtype=dtype, **k)

    def ones_like(self, x, dtype=None, **k):
        r = self._like(x, dtype, 1.0)
        return r if r is not None else _np.ones_like(x, dtype=dtype, **k)

    def empty_like(self, x, dtype=None, **k):
        r = self._like(x, dtype, None)
        return r if r is not None else _np.empty_like(x, dtype=dtype, **k)

    def full_like(self, x, fill_value, dtype=None, **k):
        if is_sym(fill_value):
            r = _np.empty(_np.shape(x), dtype=object)
            r[...] = fill_value
            return r
        r = self._like(x, dtype, fill_value)
        return r if r is not None else _np.full_like(x, fill_value, dtype=dtype, **k)

    def array(self, x, dtype=None, **k):
        if isinstance(x, ShapeOnly):
            return x
        if dtype is not None and _is_numeric_dtype(dtype) and _has_sym(x):
            r = _np.array(x, dtype=object, **k)
            return astype(r, dtype)
        return _np.array(x, dtype=dtype, **k)

    def asarray(self, x, dtype=None, **k):
        if isinstance(x, ShapeOnly):
            return x
        if is_sym(x):
            return _obj(x)
        if dtype is not None and _is_numeric_dtype(dtype) and _has_sym(x):
            r = _np.asarray(x, dtype=object, **k)
            return astype(r, dtype)
        return _np.asarray(x, dtype=dtype, **k)

    def copy(self, x, **k):
        if isinstance(x, ShapeOnly):
            return x.copy()
        return _np.copy(x, **k)

    def shape(self, x):
        return x.shape if isinstance(x, ShapeOnly) else _np.shape(x)

    def ndim(self, x):
        return x.ndim if isinstance(x, ShapeOnly) else _np.ndim(x)

    def arange(self, *a, **k):
        if any(is_sym(v) for v in a):
            a = tuple(v.__index__() if isinstance(v, Sym) and v.is_int else (float(v) if is_sym(v) else v) for v in a)
        return _np.arange(*a, **k)

    # ---- elementwise shims ------------------------------------------------------------------------
    def _unary(self, name, f):
        def g(x, *a, **k):
            if _has_sym(x):
                return _map(f, x)
            if isinstance(x, _np.ndarray) and x.dtype == object:
                return _map(f, x)
            return getattr(_np, name)(x, *a, **k)
        return g

    def floor(self, x, *a, **k):
        return self._unary("floor", lambda e: e.__floor__() if isinstance(e, Sym) else float(_math.floor(e)))(x, *a, **k)

    def ceil(self, x, *a, **k):
        return self._unary("ceil", lambda e: e.__ceil__() if isinstance(e, Sym) else float(_math.ceil(e)))(x, *a, **k)

    def trunc(self, x, *a, **k):
        return self._unary("trunc", lambda e: e.__trunc__() if isinstance(e, Sym) else float(_math.trunc(e)))(x, *a, **k)

    def sqrt(self, x, *a, **k):
        return self._unary("sqrt", sym_sqrt)(x, *a, **k)

    def absolute(self, x, *a, **k):
        return self._unary("absolute", abs)(x, *a, **k)

    abs = absolute
    fabs = absolute

    def square(self, x, *a, **k):
        return self._unary("square", lambda e: e * e)(x, *a, **k)

    def sign(self, x, *a, **k):
        return self._unary("sign", lambda e: sym_if(e > 0, 1, sym_if(e < 0, -1, 0)) if isinstance(e, Sym) else _np.sign(e))(x, *a, **k)

    def round(self, x, decimals=0, *a, **k):
        if _has_sym(x):
            def r(e):
                if isinstance(e, Sym) and e.is_real:
                    if decimals:
                        raise Unsupported("np.round(decimals != 0) of a symbolic real")
                    return e.__round__()
                return e
            return _map(r, x)
        if isinstance(x, _np.ndarray) and x.dtype == object:
            return _map(lambda e: builtins.round(e, decimals) if decimals else float(builtins.round(e)) if isinstance(e, float) else e, x)
        return _np.round(x, decimals, *a, **k)

    around = round
    rint = round

    def maximum(self, a, b, *r, **k):
        if _has_sym(a) or _has_sym(b):
            return _map(sym_max, a, b)
        return _np.maximum(a, b, *r, **k)

    def minimum(self, a, b, *r, **k):
        if _has_sym(a) or _has_sym(b):
            return _map(sym_min, a, b)
        return _np.minimum(a, b, *r, **k)

    def clip(self, x, lo, hi, *r, **k):
        if _has_sym(x) or _has_sym(lo) or _has_sym(hi):
            y = x
            if lo is not None:
                y = _map(sym_max, y, lo)
            if hi is not None:
                y = _map(sym_min, y, hi)
            return y
        return _np.clip(x, lo, hi, *r, **k)

    def where(self, c, *ab):
        if not ab:
            if _has_sym(c):
                raise Unsupported("np.where(cond) with symbolic condition")
            return _np.where(c)
        a, b = ab
        if _has_sym(c):
            return _map(sym_if, c, a, b)
        return _np.where(c, a, b)

    def _reduce(self, f2, x, axis=None, keepdims=False, npname=None, **k):
        if not _has_sym(x):
            return getattr(_np, npname)(x, axis=axis, keepdims=keepdims, **k) if keepdims else getattr(_np, npname)(x, axis=axis, **k)
        x = _obj(x)
        if axis is None:
            it = list(x.flat)
            r = it[0]
            for e in it[1:]:
                r = f2(r, e)
            if keepdims:
                o = _np.empty((1,) * x.ndim, dtype=object); o[...] = r; return o
            return r
        if isinstance(axis, tuple):
            r = x
            for ax in sorted([a % x.ndim for a in axis], reverse=True):
                r = self._reduce(f2, r, axis=ax, keepdims=keepdims, npname=npname)
            return r
        xm = _np.moveaxis(x, axis, 0)
        r = xm[0]
        for j in range(1, xm.shape[0]):
            r = _map(f2, r, xm[j])
        if keepdims:
            r = _np.expand_dims(_obj(r), axis)
        return r

    def max(self, x, axis=None, keepdims=False, **k):
        return self._reduce(sym_max, x, axis, keepdims, "max", **k)

    def min(self, x, axis=None, keepdims=False, **k):
        return self._reduce(sym_min, x, axis, keepdims, "min", **k)

    amax = max
    amin = min

    def prod(self, x, axis=None, **k):
        if isinstance(x, (tuple, list)) and axis is None:
            if len(x) == 0:
                return _np.prod(x, **k)
            if _has_sym(x):
                r = 1
                for e in x:
                    r = r * e
                return r
        return _np.prod(x, axis=axis, **k)

    def isclose(self, a, b, *r, **k):
        if _has_sym(a) or _has_sym(b):
            _record_guard("isclose", a, b, r, k)
            return _map(lambda p, q: (Sym(lift(p)) == q), a, b)   # exact equality over the reals
        if (isinstance(a, _np.ndarray) and a.dtype == object) or (isinstance(b, _np.ndarray) and b.dtype == object):
            return _np.isclose(_np.asarray(a, dtype=float), _np.asarray(b, dtype=float), *r, **k)
        return _np.isclose(a, b, *r, **k)

    def allclose(self, a, b, *r, **k):
        if isinstance(a, ShapeOnly) or isinstance(b, ShapeOnly):
            raise Unsupported("allclose on ShapeOnly")
        if _has_sym(a) or _has_sym(b):
            _record_guard("allclose", a, b, r, k)
            e = _map(lambda p, q: (Sym(lift(p)) == q), a, b)
            return self.all(e)
        if (isinstance(a, _np.ndarray) and a.dtype == object) or (isinstance(b, _np.ndarray) and b.dtype == object):
            return _np.allclose(_np.asarray(a, dtype=float), _np.asarray(b, dtype=float), *r, **k)
        return _np.allclose(a, b, *r, **k)

    def array_equal(self, a, b, *r, **k):
        if _has_sym(a) or _has_sym(b):
            if _np.shape(a) != _np.shape(b):
                return False
            return self.all(self.isclose(a, b))
        return _np.array_equal(a, b, *r, **k)

    def all(self, x, axis=None, **k):
        if _has_sym(x) and axis is None:
            ts = [SymBool._b(e) for e in _obj(x).flat]
            return SymBool(z3.And(*ts)) if ts else True
        return _np.all(x, axis=axis, **k)

    def any(self, x, axis=None, **k):
        if _has_sym(x) and axis is None:
            ts = [SymBool._b(e) for e in _obj(x).flat]
            return SymBool(z3.Or(*ts)) if ts else False
        return _np.any(x, axis=axis, **k)

    def logical_and(self, a, b, *r, **k):
        if _has_sym(a) or _has_sym(b):
            return _map(lambda p, q: SymBool(z3.And(SymBool._b(p), SymBool._b(q))), a, b)
        return _np.logical_and(a, b, *r, **k)

    def logical_or(self, a, b, *r, **k):
        if _has_sym(a) or _has_sym(b):
            return _map(lambda p, q: SymBool(z3.Or(SymBool._b(p), SymBool._b(q))), a, b)
        return _np.logical_or(a, b, *r, **k)

    def logical_not(self, a, *r, **k):
        if _has_sym(a):
            return _map(lambda p: SymBool(z3.Not(SymBool._b(p))), a)
        return _np.logical_not(a, *r, **k)

    def isnan(self, x, *a, **k):
        if isinstance(x, _np.ndarray) and x.dtype == object or is_sym(x):
            return _map(lambda e: False, x)
        return _np.isnan(x, *a, **k)

    def isfinite(self, x, *a, **k):
        if isinstance(x, _np.ndarray) and x.dtype == object or is_sym(x):
            return _map(lambda e: True, x)
        return _np.isfinite(x, *a, **k)

    def isscalar(self, x):
        return True if isinstance(x, Sym) else _np.isscalar(x)

    def mean(self, x, axis=None, **k):
        if _has_sym(x):
            x = _obj(x)
            n = x.size if axis is None else _np.prod([x.shape[a] for a in (axis if isinstance(axis, tuple) else (axis,))])
            return _np.sum(x, axis=axis, **k) / int(n)
        return _np.mean(x, axis=axis, **k)

    average = None  # set below

    def cos(self, x, *a, **k):
        if _has_sym(x):
            raise Unsupported("cos of symbolic value")
        return _np.cos(x, *a, **k)

    def sin(self, x, *a, **k):
        if _has_sym(x):
            raise Unsupported("sin of symbolic value")
        return _np.sin(x, *a, **k)

    def exp(self, x, *a, **k):
        if _has_sym(x):
            from .sym import sym_exp
            if is_sym(x):
                return sym_exp(x)
            return _map(lambda e: sym_exp(e if is_sym(e) else Sym(lift(e))), x)
        return _np.exp(x, *a, **k)

    def divide(self, a, b, *r, **k):
        if _has_sym(a) or _has_sym(b):
            return _map(lambda p, q: Sym(lift(p)) / q, a, b)
        if Mode.symbolic and not r and not k:
            aa, bb = _np.asarray(a), _np.asarray(b)
            if aa.dtype.kind in "iu" and bb.dtype.kind in "iu" and _np.all(bb != 0):
                # exact rationals instead of rounded doubles (ratios of voxel counts): keeps the real-arithmetic VCs exact
                from fractions import Fraction
                return _map(lambda p, q: Fraction(int(p), int(q)), aa, bb)
        return _np.divide(a, b, *r, **k)

    def multiply(self, a, b, *r, **k):
        if _has_sym(a) or _has_sym(b):
            return _obj(a) * _obj(b)
        return _np.multiply(a, b, *r, **k)

    def power(self, a, b, *r, **k):
        if _has_sym(a) or _has_sym(b):
            return _map(lambda p, q: Sym(lift(p)) ** q, a, b)
        return _np.power(a, b, *r, **k)

    def count_nonzero(self, x, *a, **k):
        if _has_sym(x):
            return _np.sum(_map(lambda e: sym_if(SymBool(SymBool._b(e)), 1, 0), x))
        return _np.count_nonzero(x, *a, **k)


del SymNP.average


class SymMath(types.ModuleType):
    def __init__(self):
        super().__init__("symmath")

    def __getattr__(self, name):
        return getattr(_math, name)

    @staticmethod
    def sqrt(x):
        return sym_sqrt(x) if isinstance(x, Sym) else _math.sqrt(x)

    @staticmethod
    def floor(x):
        return x.__floor__() if isinstance(x, Sym) else _math.floor(x)

    @staticmethod
    def ceil(x):
        return x.__ceil__() if isinstance(x, Sym) else _math.ceil(x)

    @staticmethod
    def isclose(a, b, **k):
        if is_sym(a) or is_sym(b):
            _record_guard("isclose", a, b, (), {"rtol": k.get("rel_tol", 1e-9), "atol": k.get("abs_tol", 0.0)})
            return Sym(lift(a)) == b
        return _math.isclose(a, b, **k)

    @staticmethod
    def prod(xs, **k):
        xs = list(xs)
        if _has_sym(xs):
            r = 1
            for e in xs:
                r = r * e
            return r
        return _math.prod(xs, **k)


# ---- builtins ------------------------------------------------------------------------------------

def vf_isinstance(x, T):
    hook = getattr(type(x), "__vf_isinstance__", None)
    if hook is not None:
        return hook(x, T)
    if isinstance(x, Sym):
        ts = T if isinstance(T, tuple) else (T,)
        import numbers
        for t in ts:
            if t in (float, _np.floating, _np.float64, _np.float32) and x.is_real:
                return True
            if t in (int, _np.integer, _np.int64, _np.int32) and x.is_int:
                return True
            if t in (numbers.Number, numbers.Real, object, _np.number, _np.generic):
                return True
        return builtins.isinstance(x, T)
    if isinstance(x, SymBool):
        ts = T if isinstance(T, tuple) else (T,)
        if bool in ts or _np.bool_ in ts:
            return True
        return builtins.isinstance(x, T)
    if isinstance(x, ShapeOnly):
        ts = T if isinstance(T, tuple) else (T,)
        if _np.ndarray in ts:
            return True
    return builtins.isinstance(x, T)


def vf_int(x=0, *a):
    if isinstance(x, Sym):
        return x.__trunc__()
    if isinstance(x, SymBool):
        return x._as_int()
    return builtins.int(x, *a)


def vf_float(x=0.0):
    if isinstance(x, Sym):
        return cast_scalar(x, float)
    if isinstance(x, _np.ndarray) and x.dtype == object and x.size == 1 and _has_sym(x):
        return cast_scalar(x.reshape(-1)[0], float)
    return builtins.float(x)


def vf_bool(x=False):
    if isinstance(x, SymBool):
        return builtins.bool(x)
    return builtins.bool(x)


def vf_max(*a, **k):
    if len(a) == 1 and not k:
        xs = list(a[0])
    elif not k:
        xs = list(a)
    else:
        return builtins.max(*a, **k)
    if any(is_sym(e) for e in xs):
        r = xs[0]
        for e in xs[1:]:
            r = sym_max(r, e)
        return r
    return builtins.max(*a, **k)


def vf_min(*a, **k):
    if len(a) == 1 and not k:
        xs = list(a[0])
    elif not k:
        xs = list(a)
    else:
        return builtins.min(*a, **k)
    if any(is_sym(e) for e in xs):
        r = xs[0]
        for e in xs[1:]:
            r = sym_min(r, e)
        return r
    return builtins.min(*a, **k)


def vf_round(x, n=None):
    if isinstance(x, Sym):
        return x.__round__(n)
    return builtins.round(x, n) if n is not None else builtins.round(x)


def vf_range(*a):
    a = tuple(v.__index__() if isinstance(v, Sym) else v for v in a)
    return builtins.range(*a)


def vf_cmp(op, a, b):
    """R5: comparison where an operand is an object ndarray: keep the elementwise result symbolic
    (numpy's default loop would call bool() on every element)."""
    import operator
    f = {"<": operator.lt, "<=": operator.le, ">": operator.gt, ">=": operator.ge,
         "==": operator.eq, "!=": operator.ne}[op]
    ao = isinstance(a, _np.ndarray) and a.dtype == object
    bo = isinstance(b, _np.ndarray) and b.dtype == object
    if (ao or bo) and (_has_sym(a) or _has_sym(b)):
        def g(p, q):
            if is_sym(p):
                return f(p, q)
            if is_sym(q):
                return f(Sym(lift(p)), q)
            return f(p, q)
        return _map(g, a, b)
    return f(a, b)


def vf_div(a, b):
    """R6: a / b; in symbolic mode int / int is the exact rational (real-number semantics), otherwise Python's a / b."""
    if Mode.symbolic and isinstance(a, (int, _np.integer)) and isinstance(b, (int, _np.integer)) and not isinstance(a, (bool, _np.bool_)) \
            and not isinstance(b, (bool, _np.bool_)) and int(b) != 0:
        from fractions import Fraction
        fr = Fraction(int(a), int(b))
        return int(fr) if fr.denominator == 1 else fr
    return a / b


_IOPS = None


def vf_iop(op, a, b):
    """R7: `a op= b` for a plain name / attribute target, i.e. a = operator.i<op>(a, b) - exactly Python's semantics.  Only if numpy
    refuses the in-place update because `a` is a numeric array and `b` carries symbols (an object result cannot be cast into a float
    buffer) the update is done on an object-dtype COPY of `a`: other references to the old buffer do not see it (engine approximation;
    the concrete companion runs execute the real in-place update)."""
    global _IOPS
    import operator
    if _IOPS is None:
        _IOPS = {"+": operator.iadd, "-": operator.isub, "*": operator.imul, "/": operator.itruediv, "//": operator.ifloordiv, "%": operator.imod, "**": operator.ipow,
                 "@": operator.imatmul, "&": operator.iand, "|": operator.ior, "^": operator.ixor, "<<": operator.ilshift, ">>": operator.irshift}
    f = _IOPS[op]
    if Mode.symbolic and isinstance(a, _np.ndarray) and a.dtype != object and (is_sym(b) or (isinstance(b, _np.ndarray) and b.dtype == object and _has_sym(b))):
        return f(a.astype(object), b)
    return f(a, b)


BUILTIN_SHIMS = {
    "isinstance": vf_isinstance, "int": vf_int, "float": vf_float, "max": vf_max, "min": vf_min,
    "round": vf_round, "range": vf_range,
}
