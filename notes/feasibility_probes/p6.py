import sys; sys.path.insert(0,'/tmp/probe')
import sympy as sp, numpy as np, time, itertools, types, ast, inspect, textwrap
import darsia.utils.quadrature as q
# execute the real gauss() with np.sqrt -> sympy.sqrt and float literals -> Rationals
class SymPyNP(types.ModuleType):
    def __getattr__(self, n): return getattr(np, n)
    def sqrt(self, x): return sp.sqrt(x)
    def array(self, x, **k): return np.array(x, dtype=object)
class Lit(ast.NodeTransformer):
    def visit_Constant(self, node):
        if isinstance(node.value, float):
            r = sp.Rational(str(node.value))
            return ast.copy_location(ast.Call(ast.Name("__Q",ast.Load()),[ast.Constant(r.p),ast.Constant(r.q)],[]),node)
        return node
fn=q.gauss
tree=Lit().visit(ast.parse(textwrap.dedent(inspect.getsource(fn)))); ast.fix_missing_locations(tree)
g=dict(fn.__globals__); g["np"]=SymPyNP("x"); g["__Q"]=sp.Rational; ns={}
exec(compile(tree,"q","exec"),g,ns); gauss=ns["gauss"]
t=time.time()
for dim,orders in [(1,[0,1,2,3,4,"max"]),(2,[0,1,2,3,"max"]),(3,[0,1,2,"max"])]:
    for o in orders:
        pts,w = gauss(dim,o)
        pts = np.atleast_2d(pts) if dim>1 else np.array(pts,dtype=object).reshape(-1,1)
        npts1 = round(len(pts)**(1/dim)); deg=2*npts1-1
        ok_len = len(pts)==len(w)
        fails=[]
        if ok_len:
            for al in itertools.product(range(deg+1), repeat=dim):
                lhs = sum(w[i]*sp.prod([pts[i][k]**al[k] for k in range(dim)]) for i in range(len(w)))
                rhs = sp.prod([sp.Rational(2,a+1) if a%2==0 else 0 for a in al])
                if sp.simplify(lhs-rhs)!=0: fails.append(al)
        pos = all(sp.simplify(x)>0 for x in w)
        print(dim,o,"npts",len(pts),"nw",len(w),"deg",deg,"pos",pos,"fails",fails[:4], len(fails))
print(round(time.time()-t,1),"s")
