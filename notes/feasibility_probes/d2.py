import warnings; warnings.simplefilter("ignore")
import numpy as np, darsia, time
rng=np.random.default_rng(1)
def pair(shape, dims):
    a=rng.random(shape); b=rng.random(shape); b*=a.sum()/b.sum()
    kw=dict(space_dim=len(shape), scalar=True, dimensions=dims)
    return darsia.Image(a,**kw), darsia.Image(b,**kw)
m1,m2=pair((6,5),[1.2,1.0])
for method in ["newton","bregman"]:
  for form in ["full","flux-reduced","flux_reduced","pressure"]:
    for ls in ["direct","amg","cg"]:
        opts={"formulation":form,"linear_solver":ls,"num_iter":50,"tol_residual":1e-8,"tol_increment":1e-8,"tol_distance":1e-8,"return_info":True,"L":1.0 if method=="bregman" else 1e-2}
        t=time.time()
        try:
            d,info=darsia.wasserstein_distance(m1,m2,method=method,options=opts)
            grid=info["grid"]; 
            print(method,form,ls,"d=%.6f"%d,"conv",info["converged"],"it",info["number_iterations"],round(time.time()-t,2))
        except Exception as e:
            print(method,form,ls,"ERR",type(e).__name__,str(e)[:80])
