import ast, inspect, textwrap, types, numpy as _np, z3
from sym import Sym, SymBool
from symnp import SymNP

def vf_astype(x, t, *a, **k):
    x = _np.asarray(x) if not isinstance(x, _np.ndarray) else x
    if x.dtype != object: return x.astype(t, *a, **k)
    def conv(e):
        if not isinstance(e, Sym): return t(e) if t in (int,float,bool) else e
        if t is int or t is _np.int64 or t is _np.int32:
            if e.t.is_int(): return e
            return Sym(z3.If(e.t >= 0, z3.ToInt(e.t), -z3.ToInt(-e.t)))   # C truncation toward zero
        if t is float or t in (_np.float64, _np.float32):
            return Sym(z3.ToReal(e.t)) if e.t.is_int() else e
        raise TypeError(t)
    out = _np.empty(x.shape, dtype=object)
    for idx in _np.ndindex(x.shape): out[idx] = conv(x[idx])
    return out.view(type(x)) if isinstance(x, _np.ndarray) and type(x) is not _np.ndarray else out

class Rewriter(ast.NodeTransformer):
    def visit_Call(self, node):
        self.generic_visit(node)
        if isinstance(node.func, ast.Attribute) and node.func.attr == "astype":
            return ast.copy_location(ast.Call(func=ast.Name("__vf_astype", ast.Load()),
                        args=[node.func.value]+node.args, keywords=node.keywords), node)
        return node

def instrument(cls, name, overrides):
    raw = cls.__dict__[name]
    fn = raw.__func__ if isinstance(raw,(staticmethod,classmethod)) else (raw.fget if isinstance(raw,property) else raw)
    src = textwrap.dedent(inspect.getsource(fn))
    tree = Rewriter().visit(ast.parse(src)); ast.fix_missing_locations(tree)
    g = dict(fn.__globals__); g.update(overrides); g["__vf_astype"] = vf_astype
    # wrap in a factory so that zero-argument super() finds its __class__ cell
    fdef = tree.body[0]
    factory = ast.FunctionDef(name="__vf_factory", args=ast.arguments(posonlyargs=[], args=[ast.arg("__class__")], kwonlyargs=[], kw_defaults=[], defaults=[]),
                              body=[fdef, ast.Return(ast.Name(fdef.name, ast.Load()))], decorator_list=[], type_params=[])
    fdef.decorator_list = []
    mod = ast.Module(body=[factory], type_ignores=[]); ast.fix_missing_locations(mod)
    ns = {}
    exec(compile(mod, inspect.getsourcefile(fn), "exec"), g, ns)
    new = ns["__vf_factory"](cls)
    if isinstance(raw, staticmethod): new = staticmethod(new)
    elif isinstance(raw, property): new = property(new)
    setattr(cls, name, new)
