import sys; sys.path.insert(0,'/tmp/probe')
import warnings; warnings.simplefilter("ignore")
import numpy as np, z3, darsia, time
from sym import Sym, SymBool, explore, PathCtx
from symnp import SymNP
from instr import instrument
Sym.copy = lambda s: s
R=lambda n: Sym(z3.Real(n))
def symarr(name, shape):
    a=np.empty(shape,dtype=object)
    for idx in np.ndindex(*shape): a[idx]=R(name+"_"+"_".join(map(str,idx)))
    return a
def prove(name, hyps, goal):
    s=z3.Solver(); s.set("timeout",30000); s.add(*hyps); s.add(z3.Not(goal)); t=time.time(); r=s.check()
    print(f"{name}: {r} ({time.time()-t:.2f}s)"); return r,s
import darsia.measure.integration as gi
ov={"np":SymNP()}
for n in ["__init__","integrate"]: instrument(gi.Geometry,n,ov)
instrument(gi.WeightedGeometry,"__init__",ov)
d=[R("d0"),R("d1")]; pos=[z3.Real("d0")>0,z3.Real("d1")>0]
def spec(data,w,shape):
    vol=(d[0].t/shape[0])*(d[1].t/shape[1])
    return [sum(data[i,j,c].t*(w[i,j].t if w is not None else 1)*vol for i in range(shape[0]) for j in range(shape[1])) for c in range(data.shape[2])]
def integ():
    w=symarr("w",(2,3)); data=symarr("a",(2,3,1))[...,0:1]
    g=gi.WeightedGeometry(w, space_dim=2, num_voxels=(2,3), dimensions=d)
    return [g.integrate(data[...,0])], w, data
for pc,(res,w,data) in explore(integ):
    prove("C03 sum weighted", pos+pc, z3.And(*[res[c].t==s for c,s in enumerate(spec(data,w,(2,3)))]))
# history: plain geometry, coarse call then native call vs spec
def hist():
    g=gi.Geometry(space_dim=2, num_voxels=(2,4), dimensions=d)
    coarse=symarr("c",(1,2,1)); data=symarr("a",(2,4,1))
    r0=g.integrate(coarse); r1=g.integrate(data)
    return r0,r1,coarse,data
for pc,(r0,r1,coarse,data) in explore(hist):
    prove("C03 coarse call == spec at coarse res", pos+pc, r0[0].t==spec(coarse,None,(1,2))[0])
    r,s=prove("C03 native after coarse == spec", pos+pc, r1[0].t==spec(data,None,(2,4))[0])
