import Mathlib.Algebra.Module.LinearMap.Defs
import Mathlib.Tactic.Abel
import Mathlib.Tactic.Linarith

theorem mass_step {V W : Type*} [AddCommGroup V] [AddCommGroup W]
    (D : V →+ W) (u du : V) (b lam dlam : W)
    (h : D du - dlam = b - D u + lam) : D (u + du) - (lam + dlam) = b := by
  have h2 : D du = b - D u + lam + dlam := by rw [← h]; abel
  rw [map_add, h2]; abel

theorem affine_mix {V W : Type*} [AddCommGroup V] [AddCommGroup W]
    (D : V →+ W) (g g1 g2 : V) (b : W) (k : ℤ)
    (hg : D g = b) (h1 : D g1 = b) (h2 : D g2 = b) : D (g - k • (g1 - g2)) = b := by
  rw [map_sub, map_zsmul, map_sub, h1, h2, hg]; simp
