import warnings; warnings.simplefilter("ignore")
import numpy as np, darsia
rng=np.random.default_rng(1)
a=rng.random((4,4)); b=rng.random((4,4)); b*=a.sum()/b.sum()
kw=dict(space_dim=2, scalar=True, dimensions=[1.,1.])
m1,m2=darsia.Image(a,**kw),darsia.Image(b,**kw)
grid=darsia.generate_grid(m1)
for cls in (darsia.WassersteinDistanceNewton, darsia.WassersteinDistanceBregman):
    w=cls(grid, None, {"num_iter":20,"return_info":True,"L":1.0})
    real=w.linear_solve; cnt=[0]
    def faulty(*a,**k):
        cnt[0]+=1
        if cnt[0]==3: raise RuntimeError("injected")
        return real(*a,**k)
    w.linear_solve=faulty
    d,info=w(m1,m2)
    print(cls.__name__,"converged flag after injected fault:",info["converged"],"iters",info["number_iterations"],"d",d)
p=darsia.PolynomialApproximationSpace(2); print([divmod(k,3) for k in range(p.size)])
