import sys; sys.path.insert(0,'/tmp/probe')
import warnings; warnings.simplefilter("ignore")
import numpy as np, z3, darsia, time
from sym import Sym, explore, PathCtx
from symnp import SymNP
from instr import instrument
import darsia.utils.fv as fv
import types
# instrument module-level function
import inspect, ast, textwrap
from instr import Rewriter, vf_astype
def instrument_fn(mod, name, ov):
    fn = getattr(mod, name)
    tree = Rewriter().visit(ast.parse(textwrap.dedent(inspect.getsource(fn)))); ast.fix_missing_locations(tree)
    g = dict(fn.__globals__); g.update(ov); g["__vf_astype"]=vf_astype; ns={}
    exec(compile(tree, inspect.getsourcefile(fn), "exec"), g, ns); return ns[name]
f2c = instrument_fn(fv, "face_to_cell", {"np": SymNP()})
t=time.time(); n_ob=0
for shape in [(3,),(1,),(2,3),(1,4),(3,1),(2,2,3),(1,1,2)]:
    grid = darsia.Grid(shape, [0.5,2.0,3.0][:len(shape)])
    u = np.array([Sym(z3.Real(f'u{f}')) for f in range(grid.num_faces)], dtype=object)
    pt = np.array([Sym(z3.Real(f'p{d}')) for d in range(grid.dim)], dtype=object)
    def run(): return f2c(grid, u, pt if grid.dim>1 else pt[0])
    paths = explore(run)
    assert len(paths)==1
    cf = paths[0][1]
    # spec: cell c, component d: (1-p_d)*u[lower face] + p_d*u[upper face], boundary faces 0
    s = z3.Solver()
    bad=[]
    for c in np.ndindex(*shape):
        ci = grid.cell_index[c]
        for d in range(grid.dim):
            lo, hi = grid.reverse_connectivity[d, ci]
            ulo = u[lo].t if lo!=-1 else z3.RealVal(0); uhi = u[hi].t if hi!=-1 else z3.RealVal(0)
            spec = (1-pt[d].t)*ulo + pt[d].t*uhi
            got = cf[c+(d,)]; got = got.t if isinstance(got,Sym) else z3.RealVal(float(got))
            bad.append(got != spec); n_ob+=1
    s.add(z3.Or(*bad)); print(shape, s.check())
print(n_ob, "obligations", round(time.time()-t,2),"s")
