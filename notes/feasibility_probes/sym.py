import z3, numpy as np, math
class Sym:
    def __init__(self, t): self.t = t
    @staticmethod
    def lift(x):
        if isinstance(x, Sym): return x.t
        if isinstance(x, (bool, np.bool_)): return z3.BoolVal(bool(x))
        if isinstance(x, (int, np.integer)): return z3.IntVal(int(x))
        if isinstance(x, (float, np.floating)):
            from fractions import Fraction
            f = Fraction(float(x)); return z3.RealVal(f"{f.numerator}/{f.denominator}")
        raise TypeError(type(x))
    def _bin(self, o, f, rev=False):
        if isinstance(o, np.ndarray): return NotImplemented
        a, b = self.t, Sym.lift(o)
        if rev: a, b = b, a
        return Sym(f(a, b))
    def __add__(s,o): return s._bin(o, lambda a,b:a+b)
    def __radd__(s,o): return s._bin(o, lambda a,b:a+b, True)
    def __sub__(s,o): return s._bin(o, lambda a,b:a-b)
    def __rsub__(s,o): return s._bin(o, lambda a,b:a-b, True)
    def __mul__(s,o): return s._bin(o, lambda a,b:a*b)
    def __rmul__(s,o): return s._bin(o, lambda a,b:a*b, True)
    def __truediv__(s,o): return s._bin(o, lambda a,b:z3.ToReal(a)/z3.ToReal(b) if a.is_int() and b.is_int() else (z3.ToReal(a) if a.is_int() else a)/(z3.ToReal(b) if b.is_int() else b))
    def __rtruediv__(s,o): return s._bin(o, lambda a,b:(z3.ToReal(a) if a.is_int() else a)/(z3.ToReal(b) if b.is_int() else b), True)
    def __neg__(s): return Sym(-s.t)
    def __floor__(s): return Sym(z3.ToInt(s.t)) if s.t.is_real() else s
    def floor(s): return s.__floor__()
    def __repr__(s): return f"Sym({z3.simplify(s.t)})"
    def __float__(s): raise TypeError("symbolic float()")
    def __int__(s): raise TypeError("symbolic int()")
    def astype(s, t): return s

class PathCtx:
    cur = None
    def __init__(self, decisions): self.decisions=list(decisions); self.pos=0; self.pc=[]; self.solver=z3.Solver()
class SymBool:
    def __init__(self, t): self.t=t
    def __bool__(self):
        ctx = PathCtx.cur
        if ctx is None: raise TypeError("symbolic bool outside path context")
        s = ctx.solver
        if ctx.pos < len(ctx.decisions):
            d = ctx.decisions[ctx.pos]
        else:
            # choose True if feasible else False
            s.push(); s.add(self.t); r = s.check(); s.pop()
            d = (r != z3.unsat)
            if d:
                s.push(); s.add(z3.Not(self.t)); r2 = s.check(); s.pop()
                other = (r2 != z3.unsat)
            else: other = False
            ctx.decisions.append(d); ctx.open_alt = getattr(ctx,'open_alt',[]) ; ctx.open_alt.append(other)
        ctx.pos += 1
        c = self.t if d else z3.Not(self.t)
        ctx.pc.append(c); s.add(c)
        return d
    def __and__(s,o): return SymBool(z3.And(s.t, o.t if isinstance(o,SymBool) else z3.BoolVal(bool(o))))
    def __or__(s,o): return SymBool(z3.Or(s.t, o.t if isinstance(o,SymBool) else z3.BoolVal(bool(o))))
    def __invert__(s): return SymBool(z3.Not(s.t))
def _cmp(f):
    def m(s,o):
        if isinstance(o,np.ndarray): return NotImplemented
        a,b = s.t, Sym.lift(o)
        return SymBool(f(a,b))
    return m
Sym.__lt__=_cmp(lambda a,b:a<b); Sym.__le__=_cmp(lambda a,b:a<=b)
Sym.__gt__=_cmp(lambda a,b:a>b); Sym.__ge__=_cmp(lambda a,b:a>=b)
Sym.__eq__=_cmp(lambda a,b:a==b); Sym.__ne__=_cmp(lambda a,b:a!=b)
Sym.__hash__=lambda s: id(s)

def explore(fn, max_paths=200):
    """Run fn() under all feasible decision sequences; yield (pc, result)."""
    stack=[[]]; out=[]
    while stack and len(out)<max_paths:
        dec=stack.pop()
        ctx=PathCtx(dec); ctx.open_alt=[False]*len(dec); PathCtx.cur=ctx
        try: res=fn()
        finally: PathCtx.cur=None
        out.append((list(ctx.pc),res))
        for k in range(len(dec), len(ctx.decisions)):
            if ctx.open_alt[k]:
                stack.append(ctx.decisions[:k]+[not ctx.decisions[k]])
    return out
Sym.__abs__ = lambda s: Sym(z3.If(s.t >= 0, s.t, -s.t))
