import numpy as _np, types, z3
from sym import Sym
class SymNP(types.ModuleType):
    """numpy proxy: float allocations become object arrays; branching ufuncs become symbolic."""
    def __init__(self): super().__init__("symnp")
    def __getattr__(self, name): return getattr(_np, name)
    @staticmethod
    def _dt(kw, args=None):
        if kw.get("dtype", None) in (float, _np.float64, _np.float32, int): kw["dtype"] = object
        return kw
    def zeros(self, *a, **k): return _np.zeros(*a, **self._dt(k)) if k.get("dtype") is not None else _np.zeros(*a, dtype=object)+0
    def empty_like(self, x, **k): return _np.empty_like(x, **self._dt(k))
    def zeros_like(self, x, **k):
        r = _np.empty_like(x, **self._dt(k)); r[...] = 0; return r
    def floor(self, x):
        x = _np.asarray(x)
        if x.dtype == object:
            f = _np.frompyfunc(lambda e: e.__floor__() if isinstance(e, Sym) else _np.floor(e), 1, 1)
            return f(x)
        return _np.floor(x)
    def round(self, x, *a, **k):
        x = _np.asarray(x)
        if x.dtype == object: return x   # only used on already-integral pixel arrays (checked by Sym sort)
        return _np.round(x, *a, **k)
