import warnings; warnings.simplefilter("ignore")
import numpy as np, darsia
rng=np.random.default_rng(0)
# C03 cache staleness
g = darsia.Geometry(space_dim=2, num_voxels=(4,6), dimensions=[2.,3.])
a = rng.random((4,6)); c = rng.random((2,3))
fresh = darsia.Geometry(space_dim=2, num_voxels=(4,6), dimensions=[2.,3.]).integrate(a)
g.integrate(c); print("C03 scalar stale:", g.integrate(a), fresh)
w = rng.random((4,6))
gw = darsia.WeightedGeometry(w, space_dim=2, num_voxels=(4,6), dimensions=[2.,3.])
fresh = darsia.WeightedGeometry(w, space_dim=2, num_voxels=(4,6), dimensions=[2.,3.]).integrate(a)
gw.integrate(c); print("C03 array stale:", gw.integrate(a), fresh)
# C16 Jacobi
J = darsia.Jacobi(maxiter=3, mass_coeff=1.0, diffusion_coeff=1.0)
x = rng.random((5,5)); r1 = J(x, x, h=1.0); r2 = J(x, x, h=0.5)
r2f = darsia.Jacobi(maxiter=3, mass_coeff=1.0, diffusion_coeff=1.0)(x, x, h=0.5)
print("C16 jacobi stale:", np.abs(r2-r2f).max())
# C12 composition
from darsia.corrections.color.colorbalance import AdaptiveBalance
sw = rng.random((24,3)); A1 = np.eye(3)+0.1*rng.standard_normal((3,3)); A2=np.eye(3)+0.1*rng.standard_normal((3,3))
ab = AdaptiveBalance(); ab.find_balance(sw, sw@A1, mode="linear"); s1 = ab.apply_balance(sw)
st1 = ab.balance_scaling.copy()
ab.find_balance(sw, sw@A1@A2, mode="linear")
print("C12 staged err:", np.abs(ab.apply_balance(sw) - sw@A1@A2).max())
# C09 3d inverse
T = darsia.AffineTransformation(3); T.set_parameters(translation=np.array([1.,2.,3.]), scaling=1.5, rotation=np.array([0.3,0.5,0.7]))
p = rng.random((5,3)); print("C09 inv err:", np.abs(T.inverse_array(T.call_array(p))-p).max(), np.abs(T.rotation@T.rotation_inv-np.eye(3)).max())
T2 = darsia.AffineTransformation(3); T2.set_parameters(rotation=np.array([0.3,0.,0.]))
print("C09 single angle:", np.abs(T2.rotation@T2.rotation_inv-np.eye(3)).max())
# C17
im = darsia.Image(rng.random((4,6)), scalar=True, dimensions=[2.,3.])
wimg = darsia.Image(rng.random((2,3)), scalar=True, dimensions=[2.,3.])
darsia.weight(im, wimg); print("C17 weight arg shape after:", wimg.img.shape)
ims=[darsia.Image(rng.random((4,6)), scalar=True, dimensions=[2.,3.], time=float(t)) for t in range(3)]
st=darsia.stack(ims); print("C17 stack mutates first:", ims[0].series, ims[0].img.shape)
dims=[2.,3.]; darsia.Image(rng.random((4,6)), scalar=True, dimensions=dims, height=5.); print("C17 dims list:", dims)
