import warnings; warnings.simplefilter("ignore")
import numpy as np, darsia
w=np.ones((2,3)); g=darsia.WeightedGeometry(w, space_dim=2, num_voxels=(2,3), dimensions=[1.,1.])
for shp in [(2,3),(2,3,2),(2,3,4,2)]:
    try: print(shp, g.integrate(np.ones(shp)).shape if hasattr(g.integrate(np.ones(shp)),'shape') else g.integrate(np.ones(shp)))
    except Exception as e: print(shp,"ERR",e)
g2=darsia.Geometry(space_dim=2, num_voxels=(2,3), dimensions=[1.,1.])
for shp in [(2,3),(2,3,2),(2,3,4,2)]: print("plain",shp, np.asarray(g2.integrate(np.ones(shp))).shape)
