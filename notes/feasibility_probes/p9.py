import sys; sys.path.insert(0,'/tmp/probe')
import warnings; warnings.simplefilter("ignore")
import numpy as np, z3, darsia, time, inspect, ast, textwrap
from sym import Sym, SymBool, explore, PathCtx
from symnp import SymNP
from instr import instrument, Rewriter, vf_astype
Sym.copy = lambda s: s
Sym.__pow__ = lambda s, k: Sym(s.t**k) if isinstance(k,int) else NotImplemented
R=lambda n: Sym(z3.Real(n))
def symarr(name, shape):
    a=np.empty(shape,dtype=object)
    for idx in np.ndindex(*shape): a[idx]=R(name+"_"+"_".join(map(str,idx)))
    return a
def teq(a,b):
    a=np.asarray(a,dtype=object); b=np.asarray(b,dtype=object)
    assert a.shape==b.shape,(a.shape,b.shape)
    return z3.And(*[ (x.t if isinstance(x,Sym) else Sym.lift(x))==(y.t if isinstance(y,Sym) else Sym.lift(y)) for x,y in zip(a.ravel(),b.ravel())])
def prove(name, hyps, goal):
    s=z3.Solver(); s.set("timeout",30000); s.add(*hyps); s.add(z3.Not(goal)); t=time.time(); r=s.check()
    print(f"{name}: {r} ({time.time()-t:.2f}s)"); return r,s

# (a) Jacobi hidden state, relational
import darsia.utils.linear_solvers.jacobi as jm
ov={"np":SymNP()}
for n in ["_neighbor_accumulation","_diag","__call__"]: instrument(jm.Jacobi,n,ov)
def jac():
    x=symarr("x",(3,3)); rhs=symarr("r",(3,3))
    m,dc,h=R("m"),R("dc"),R("h"); m2,dc2,h2=R("m2"),R("dc2"),R("h2")
    fresh=jm.Jacobi(maxiter=2, mass_coeff=m, diffusion_coeff=dc)(x,rhs,h=h)
    used=jm.Jacobi(maxiter=2, mass_coeff=m2, diffusion_coeff=dc2); used(x,rhs,h=h2)
    used.update_params(mass_coeff=m, diffusion_coeff=dc)
    again=used(x,rhs,h=h)
    return fresh,again
t=time.time(); paths=explore(jac); print("jacobi paths",len(paths),round(time.time()-t,2))
pos=[z3.Real(n)>0 for n in "m dc h m2 dc2 h2".split()]
for pc,(a,b) in paths:
    r,s=prove("C16 jacobi relational", pos+pc, teq(a,b))
    if r==z3.sat:
        mdl=s.model(); print({str(d):mdl[d] for d in mdl.decls() if str(d) in "m dc h m2 dc2 h2".split()})

# (b) Geometry.integrate
import darsia.measure.integration as gi
for n in ["__init__","integrate"]: instrument(gi.Geometry,n,ov)
instrument(gi.WeightedGeometry,"__init__",ov)
def integ():
    d=[R("d0"),R("d1")]; w=symarr("w",(2,3)); data=symarr("a",(2,3,2))
    g=gi.WeightedGeometry(w, space_dim=2, num_voxels=(2,3), dimensions=d)
    return g.integrate(np.moveaxis(data,2,2)), w, data, d
try:
    paths=explore(integ)
    for pc,(res,w,data,d) in paths:
        vol=(d[0].t/2)*(d[1].t/3)
        spec=[sum(data[i,j,c].t*w[i,j].t*vol for i in range(2) for j in range(3)) for c in range(2)]
        prove("C03 sum", [z3.Real("d0")>0,z3.Real("d1")>0]+pc, z3.And(*[res[c].t==spec[c] for c in range(2)]))
except Exception as e:
    import traceback; traceback.print_exc()

# (c) AdaptiveBalance composition with stubbed stage fits
import darsia.corrections.color.colorbalance as cb
class StubBalance:
    n=0
    def __init__(self): 
        StubBalance.n+=1; k=StubBalance.n
        self.balance_scaling=symarr(f"A{k}",(3,3)); self.balance_translation=symarr(f"b{k}",(3,))
    def find_balance(self,src,dst): pass
ov2={"np":SymNP(),"WhiteBalance":StubBalance,"ColorBalance":StubBalance,"AffineBalance":StubBalance}
instrument(cb.AdaptiveBalance,"find_balance",ov2)
def adaptive():
    StubBalance.n=0
    ab=cb.AdaptiveBalance(); x=symarr("x",(1,3)); dst=symarr("y",(1,3))
    ab.balance_scaling=np.eye(3).astype(object); 
    ab.find_balance(x,dst,mode="affine"); s1=ab.apply_balance(x)
    A1,b1=ab.balance_scaling.copy(), ab.balance_translation.copy()
    ab.find_balance(x,dst,mode="affine"); acc=ab.apply_balance(x)
    # sequential: stage 2 applied to stage-1 output
    A2=symarr("A2",(3,3)); b2=symarr("b2",(3,))
    seq = s1 @ A2 + b2
    return acc, seq
try:
    paths=explore(adaptive)
    for pc,(acc,seq) in paths:
        r,s=prove("C12 compose", pc, teq(acc,seq))
except Exception as e:
    import traceback; traceback.print_exc()

# (f) norms / hmean on object arrays
from scipy.stats import hmean
try:
    print("hmean:", hmean(symarr("q",(2,2)),axis=1))
except Exception as e: print("hmean ERR", type(e).__name__, str(e)[:80])
try:
    print("norm:", np.linalg.norm(symarr("q",(2,2)),2,axis=-1))
except Exception as e: print("norm ERR", type(e).__name__, str(e)[:80])
