import z3, time
# Patches tiling lemma over unbounded ints (1 axis): n voxels, c patches, pv patch size, ov overlap voxels
n,c,pv,ov,i,g = z3.Ints("n c pv ov i g")
If=z3.If
mx=lambda a,b: If(a>=b,a,b); mn=lambda a,b: If(a<=b,a,b)
# extracted from Patches.__init__: roi(i)=slice(max(i*pv-ov,0),(i+1)*pv+ov) ; rel(i)=slice(0,pv) if i==0 else slice(ov,pv+ov)
roi_start=lambda i: mx(i*pv-ov,0); roi_stop=lambda i: mn((i+1)*pv+ov, n)     # numpy clips stop at n
plen=lambda i: mx(roi_stop(i)-roi_start(i),0)
rel_start=lambda i: If(i==0,0,ov); rel_stop=lambda i: If(i==0,pv,pv+ov)
# global index range addressed by patches[i].img[rel(i)] (rel clipped to patch length)
g_lo=lambda i: roi_start(i)+mn(rel_start(i),plen(i)); g_hi=lambda i: roi_start(i)+mn(rel_stop(i),plen(i))
pre=[n>=1,c>=1,pv>=1,ov>=0,ov<=pv, pv*(c-1)<n, n<=pv*c, 0<=i,i<c]
def chk(name,goal,extra=[]):
    s=z3.Solver(); s.set("timeout",60000); s.add(*pre,*extra); s.add(z3.Not(goal)); t=time.time(); r=s.check()
    print(name,r,round(time.time()-t,2), s.model() if r==z3.sat else "")
chk("interior lo", g_lo(i)==i*pv)
chk("interior hi", g_hi(i)==mn((i+1)*pv,n))
# weaker precondition: only n<=pv*c (ceil), no lower bound -> empty trailing patches allowed
pre=[n>=1,c>=1,pv>=1,ov>=0,ov<=pv, n<=pv*c, 0<=i,i<c]
chk("weak: lo==min(i*pv,n)", g_lo(i)==mn(i*pv,n))
chk("weak: hi==min((i+1)*pv,n)", g_hi(i)==mn((i+1)*pv,n))
pre=[n>=1,c>=1,pv>=1,ov>=0,ov<=pv, n<=pv*c, 0<=i,i<c, 0<=g, g<n]
chk("set-based interior", z3.And(g_lo(i)<=g, g<g_hi(i)) == z3.And(i*pv<=g, g<(i+1)*pv))
j=z3.Int("j")
chk("coverage: g in patch g div pv and that index < c", z3.And(g/pv < c, g/pv>=0), [])
