import warnings; warnings.simplefilter("ignore")
import numpy as np, darsia, io, contextlib, tempfile, os, datetime
# C19 patches
bad=[]
for n0 in range(2,13):
  for c0 in range(1,5):
    for D in (0.3, 1.0, 2.8):
      for ov in (0.0,0.25,0.5):
        arr=np.arange(n0*7,dtype=float).reshape(n0,7)
        im=darsia.Image(arr,scalar=True,dimensions=[D,1.4])
        try:
            with contextlib.redirect_stdout(io.StringIO()):
                P=darsia.Patches(im,[c0,2],rel_overlap=ov); a=P.assemble().img
            if not np.array_equal(a,arr): bad.append((n0,c0,D,ov,"neq"))
        except Exception as e: bad.append((n0,c0,D,ov,type(e).__name__))
print("C19 failing configs:",len(bad), bad[:8])
# C02 subregion native sanity
arr=np.arange(5*6*3,dtype=float).reshape(5,6,3)
im=darsia.Image(arr,scalar=False,dimensions=[2.5,3.0],origin=[1.0,4.0])
s=im.subregion((slice(1,4),slice(2,None)))
print("C02", np.array_equal(s.img,arr[1:4,2:]), s.origin, s.dimensions, s.voxel_size, im.voxel_size,
      s.coordinatesystem.coordinate([0,0]), im.coordinatesystem.coordinate([1,2]))
c=darsia.make_coordinate([[1.6,3.4],[2.9,2.2]]); s2=im.subregion(c); v=im.coordinatesystem.voxel(c); print("C02 coord roi", s2.img.shape, v)
# C18 npz
ser=darsia.Image(np.random.rand(3,4,2),scalar=True,series=True,dimensions=[1.,2.],time=[0.,1.5],name="x")
with tempfile.TemporaryDirectory() as d:
    p=os.path.join(d,"a.npz"); ser.save(p,verbose=False); back=darsia.imread(p)
    m0,m1=ser.metadata(),back.metadata()
    print("C18", type(back).__name__, np.array_equal(back.img,ser.img), {k:(m0[k],m1[k]) for k in m0 if str(m0[k])!=str(m1[k])})
    si=darsia.ScalarImage(np.random.rand(3,4),dimensions=[1.,2.],date=datetime.datetime(2024,1,1))
    si.save(p,verbose=False); back=darsia.imread(p); print("C18 scalar kind:", type(back).__name__, back.time, si.time)
