import sys; sys.path.insert(0,'/tmp/probe')
import warnings; warnings.simplefilter("ignore")
import numpy as np, z3, darsia, time
from sym import Sym, SymBool, explore, PathCtx
from symnp import SymNP
from instr import instrument
import darsia.image.coordinatesystem as csm, darsia.utils.point as pt, darsia.image.image as imm
class ShapeOnly:
    """array stand-in: symbolic shape, no data"""
    def __init__(self, shape, dtype=np.dtype(float)): self.shape=tuple(shape); self.dtype=dtype
    def __getitem__(self, key):
        key = key if isinstance(key, tuple) else (key,)
        new=[]
        for n, sl in zip(self.shape, key):
            a = 0 if sl.start is None else sl.start; b = n if sl.stop is None else sl.stop
            new.append(b-a)
        return ShapeOnly(new+list(self.shape[len(key):]), self.dtype)
class NP2(SymNP):
    def prod(self, x, *a, **k):
        xs=list(x); r=1
        for e in xs: r=r*e
        return r
ov={"np":NP2()}
for n in ["__init__","coordinate","voxel"]: instrument(csm.CoordinateSystem, n, ov)
instrument(pt.Voxel, "__new__", ov)
for n in ["__init__","subregion"]: instrument(imm.Image, n, ov)
imm.Image.space_num = property(lambda self: NP2().prod(self.shape[: self.space_dim]))
R=lambda n: Sym(z3.Real(n)); I=lambda n: Sym(z3.Int(n))
for dim in (1,2,3):
    n=[z3.Int(f"n{i}") for i in range(dim)]; d=[z3.Real(f"d{i}") for i in range(dim)]
    a=[z3.Int(f"a{i}") for i in range(dim)]; b=[z3.Int(f"b{i}") for i in range(dim)]
    pre=[x>=1 for x in n]+[x>0 for x in d]+[z3.And(0<=a[i],a[i]<b[i],b[i]<=n[i]) for i in range(dim)]
    def run():
        PathCtx.cur.solver.add(*pre)
        img=darsia.Image(ShapeOnly([Sym(x) for x in n]), space_dim=dim, scalar=True,
            dimensions=[Sym(x) for x in d], origin=[R(f"o{i}") for i in range(dim)])
        sub=img.subregion(tuple(slice(Sym(a[i]),Sym(b[i])) for i in range(dim)))
        v=np.array([I(f"v{i}") for i in range(dim)],dtype=object)
        return img, sub, v, sub.coordinatesystem.coordinate(v), img.coordinatesystem.coordinate(v+np.array([Sym(x) for x in a],dtype=object)), sub.voxel_size, img.voxel_size
    t=time.time(); paths=explore(run); 
    for pc,(img,sub,v,cs,cp,vs,vp) in paths:
        s=z3.Solver(); s.set("timeout",30000); s.add(*pre); s.add(*pc)
        goal=z3.And(*[cs[i].t==cp[i].t for i in range(dim)], *[vs[i].t==vp[i].t for i in range(dim)])
        s.add(z3.Not(goal)); r=s.check()
        print("dim",dim,"paths",len(paths),r,round(time.time()-t,2))
        if r==z3.sat: print(s.model())
