import z3, time
n0,n1,n2,i,j,k,i2,j2,k2 = z3.Ints("n0 n1 n2 i j k i2 j2 k2")
def chk(name, hyps, goal, solver="z3"):
    s=z3.Solver(); s.set("timeout",30000); s.add(*hyps); s.add(z3.Not(goal)); t=time.time(); r=s.check(); print(name, r, round(time.time()-t,2))
box=[n0>=1,n1>=1,n2>=1,0<=i,i<n0,0<=j,j<n1,0<=k,k<n2]
box2=[0<=i2,i2<n0,0<=j2,j2<n1,0<=k2,k2<n2]
rav=lambda a,b,c: a+n0*b+n0*n1*c
chk("range2d", [n0>=1,n1>=1,0<=i,i<n0,0<=j,j<n1], z3.And(i+n0*j>=0, i+n0*j<n0*n1))
chk("inj2d", [n0>=1,n1>=1,0<=i,i<n0,0<=j,j<n1,0<=i2,i2<n0,0<=j2,j2<n1, i+n0*j==i2+n0*j2], z3.And(i==i2,j==j2))
chk("range3d", box, z3.And(rav(i,j,k)>=0, rav(i,j,k)<n0*n1*n2))
chk("inj3d", box+box2+[rav(i,j,k)==rav(i2,j2,k2)], z3.And(i==i2,j==j2,k==k2))
# face numbering axis 0 in 3d: faces_shape (n0-1,n1,n2): face id = i + (n0-1)*j + (n0-1)*n1*k ; connectivity to cells (i,j,k),(i+1,j,k)
m0=n0-1
fid=lambda a,b,c: a+m0*b+m0*n1*c
chk("face range", [n0>=2,n1>=1,n2>=1,0<=i,i<m0,0<=j,j<n1,0<=k,k<n2], z3.And(fid(i,j,k)>=0, fid(i,j,k)<m0*n1*n2))
chk("neigh diff", box, rav(i+1,j,k)-rav(i,j,k)==1)
