import numpy as np, cv2
rng=np.random.default_rng(0)
a=rng.random((3,4))
for k in (2,3):
    up=cv2.resize(a,(4*k,3*k),interpolation=cv2.INTER_AREA)
    print("up x%d nearest-like:"%k, np.allclose(up, np.repeat(np.repeat(a,k,0),k,1)), "sum ratio", up.sum()/a.sum()/k/k)
b=rng.random((6,8))
dn=cv2.resize(b,(4,3),interpolation=cv2.INTER_AREA); print("down block mean:", np.allclose(dn, b.reshape(3,2,4,2).mean((1,3))))
dn=cv2.resize(rng.random((7,9)),(3,4),interpolation=cv2.INTER_AREA); print("non-integer down conserves mean:", )
c=rng.random((7,9)); dn=cv2.resize(c,(4,3),interpolation=cv2.INTER_AREA); print(" mean ratio", dn.mean()/c.mean())
