import sys; sys.path.insert(0,'/tmp/probe')
import warnings; warnings.simplefilter("ignore")
import numpy as np, z3, darsia, time
from sym import Sym, explore, PathCtx
from symnp import SymNP
from instr import instrument, vf_astype
import darsia.image.coordinatesystem as csm, darsia.utils.point as pt
ov = {"np": SymNP()}
for n in ["__init__","coordinate","voxel"]: instrument(csm.CoordinateSystem, n, ov)
instrument(pt.Voxel, "__new__", ov)
R = lambda n: Sym(z3.Real(n)); I = lambda n: Sym(z3.Int(n))
d=[z3.Real(f'd{i}') for i in range(3)]
def run():
    PathCtx.cur.solver.add(*[x>0 for x in d])
    img = darsia.Image(np.zeros((2,3,4)), space_dim=3, scalar=True,
                   dimensions=[Sym(x) for x in d], origin=[R('ox'),R('oy'),R('oz')])
    cs = img.coordinatesystem
    v = np.array([[I('i'),I('j'),I('k')]], dtype=object)
    th = np.array([[R('t0'),R('t1'),R('t2')]], dtype=object)
    cc = cs.coordinate(v + th)
    back = cs.voxel(cc)
    return v, th, back, cs
t=time.time()
paths = explore(run)
print(len(paths), "paths", round(time.time()-t,2),"s")
for pc,(v,th,back,cs) in paths[:3]:
    s=z3.Solver(); s.set("timeout",20000)
    s.add(*[x>0 for x in d]); s.add(*pc)
    for a in th[0]: s.add(a.t>0, a.t<1)
    goal = z3.And(*[back[0][m].t==v[0][m].t for m in range(3)])
    s.add(z3.Not(goal)); t=time.time(); print(s.check(), round(time.time()-t,2))
    print(type(back).__name__, back)
