#!/bin/sh
# run every claimed quick check on the current tree, report exit codes, validate manifest + evidence
cd "$(dirname "$0")/.."
TIER="${1:-quick}"
for p in $(python3 -c "import json;print(' '.join(c['property_id'] for c in json.load(open('MANIFEST.json'))['checks']))"); do
  ./check $p --tier $TIER > /tmp/runall_$p.log 2>&1; rc=$?
  echo "$p exit=$rc $(grep '^\[' /tmp/runall_$p.log)"
  grep -E "VIOLATION|UNDECIDED|CRASH|KNOWN-FINDING|DOWNGRADED" /tmp/runall_$p.log | head -5
done
.venv/bin/python tools/validate.py
