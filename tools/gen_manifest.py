#!/usr/bin/env python3
"""Regenerates /verif/MANIFEST.json from the per-property claim table below (kept next to the contracts)."""
import json
from pathlib import Path

ROOT = Path(__file__).resolve().parent.parent
BASELINE_CMD = "cd /repo && /venv/bin/python -m pytest -ra -q -p no:cacheprovider --timeout=900 --continue-on-collection-errors"

COMMON_NOTE = ("Trusted base / assumptions: floats modelled as reals and ints as mathematical integers (A1, A2); numpy object-array "
               "semantics equal float semantics over R (A3); CPython, z3 5.1, sympy; the instrumenter's rewrite rules R1-R5 "
               "(vf/instr.py) — the verified text is the function source re-read from /repo on every run, executed by CPython on "
               "z3-backed symbols; every assumed contract of an external dependency (stub) is named in the evidence file. ")

CLAIMS = {p.stem: json.loads(p.read_text()) for p in sorted((ROOT / "tools" / "claims").glob("C*.json"))}


def main():
    props = [json.loads(l) for l in (ROOT / "properties.jsonl").read_text().splitlines() if l.strip()]
    checks, na = [], []
    extra_na = json.loads((ROOT / "tools" / "not_applicable.json").read_text()) if (ROOT / "tools" / "not_applicable.json").exists() else {}
    for p in props:
        pid = p["id"]
        has = list((ROOT / "contracts").glob(f"{pid}_*.py"))
        if pid in CLAIMS and has:
            c = CLAIMS[pid]
            checks.append({
                "property_id": pid,
                "quick_cmd": f"./check {pid} --tier quick",
                "thorough_cmd": f"./check {pid} --tier thorough",
                "evidence_file": f"evidence/{pid}.json",
                "replay_cmd_template": f"./check {pid} --replay {{path}}",
                "engine": "vf",
                "level_claimed": {"category": c["level"], "text": c["text"], "design_ref": c["design"]},
                "level_note": COMMON_NOTE + c["note"],
                "technique": c["technique"],
            })
        else:
            na.append({"property_id": pid, "reason": extra_na.get(pid, "check not built yet in this session (planned, see DESIGN.md §3); not claimed until its contracts verify on the unchanged tree")})
    m = {
        "version": 1,
        "setup_cmd": "sh tools/setup.sh",
        "hooks": {"guard": "DARSIA_VERIF", "enable": "no source hooks: instrumentation is applied in memory to the functions of /repo/src at check time (DARSIA_VERIF=1 is exported by ./check for completeness)",
                  "baseline_off_cmd": BASELINE_CMD, "source_commits": [], "add_only": True},
        "engines": [{"name": "vf", "path": "vf/", "serves_properties": [c["property_id"] for c in checks],
                     "kind_free_text": "contract-based deductive verification of the real Python functions: side-car contracts (contracts/), mechanical instrumentation of the function source re-read from /repo on every run, symbolic execution on z3 terms over all paths, VCs discharged by z3; exact algebra (sympy) and AST->VC for tables and control-flow skeletons; bounded concrete evaluation of the same contracts as labelled stand-in"}],
        "checks": checks,
        "not_applicable": na,
        "notes": "See DESIGN.md. Exit codes of ./check: 0 held, 1 violation (VIOLATION line with replay file), 2 undecided, 3 checker error. known_findings.txt lists genuine defects left in the tree and the fixed: entries of repaired ones.",
    }
    (ROOT / "MANIFEST.json").write_text(json.dumps(m, indent=1) + "\n")
    print(f"{len(checks)} checks, {len(na)} not_applicable")


if __name__ == "__main__":
    main()
