#!/usr/bin/env python3
"""Regenerates /verif/MANIFEST.json from the per-property claim table below (kept next to the contracts)."""
import json
from pathlib import Path

ROOT = Path(__file__).resolve().parent.parent
BASELINE_CMD = "cd /repo && /venv/bin/python -m pytest -ra -q -p no:cacheprovider --timeout=900 --continue-on-collection-errors"

COMMON_NOTE = ("Trusted base / assumptions: floats modelled as reals and ints as mathematical integers (A1, A2); numpy object-array "
               "semantics equal float semantics over R (A3); CPython, z3 5.1, sympy; the instrumenter's rewrite rules R1-R5 "
               "(vf/instr.py) — the verified text is the function source re-read from /repo on every run, executed by CPython on "
               "z3-backed symbols; every assumed contract of an external dependency (stub) is named in the evidence file. ")

CLAIMS = {
    "C01": dict(
        level="proof",
        technique="contract-based deductive verification: real function bodies executed on z3 symbols (all paths), VCs discharged by z3; ShapeOnly arrays give all shapes",
        text="Pre/postconditions on Image.__init__/voxel_size/opposite_corner, CoordinateSystem.__init__/coordinate/voxel/coordinate_vector/"
             "length/num_voxels, interpret_indexing and the typed point conversions are discharged by z3 for ALL extents >= 1, all "
             "dimensions > 0, all origins, all integer voxels (inside or outside the image) and all in-voxel offsets in (0,1)^d, per space "
             "dimension 1-3 x payload kind x call form (single / list / tuple / batch of 1-3 generic rows). A proof over the reals is the "
             "right level because the property is an algebraic identity of an affine map and its floor-inverse.",
        note="Not decided by proof: the behaviour of floor() under IEEE rounding (covered only by the concrete companion runs, bounded). "
             "Batch sizes above 3 rows follow from row-independence of the vectorised code, which is not itself proved.",
        design="§3 C01"),
    "C02": dict(
        level="proof",
        technique="contract-based deductive verification: real subregion/time_slice/time_interval/append/stack bodies executed on z3 symbols; ShapeOnly arrays (all shapes, symbolic ROIs) for placement, token arrays for data blocks; composition lemma in z3",
        text="Offset-embedding contract (child voxel v <-> parent voxel v+start: equal coordinate, voxel size, payload axes, time metadata) "
             "proved for Image.subregion with tuple-of-slices (closed/open ends), VoxelArray and CoordinateArray ROIs (clipped, 2-3 generic "
             "corner points) for ALL shapes, ROIs, dimensions and origins in 1-3-D; data-block identity by token arrays for every ROI of the "
             "enumerated shapes; time_slice / time_interval bookkeeping (dates, symbolic relative times, flags) for every index/interval of "
             "series of 1 and 3 steps; two-level nesting and commutation with time extraction proved directly, arbitrary depth by the "
             "composition lemma over the contracts; append/stack followed by time_slice returns the originals (data tokens, dates, times+offset).",
        note="Data-block identity and time bookkeeping are proved per enumerated shape / series length (P/shape), not for all shapes. "
             "Dates are concrete datetime objects (not symbolic). stack() without dates cannot carry relative times (no offset argument): "
             "the contract of stack covers dated or time-less images, append(offset) covers relative times.",
        design="§3 C02"),
}


def main():
    props = [json.loads(l) for l in (ROOT / "properties.jsonl").read_text().splitlines() if l.strip()]
    checks, na = [], []
    extra_na = json.loads((ROOT / "tools" / "not_applicable.json").read_text()) if (ROOT / "tools" / "not_applicable.json").exists() else {}
    for p in props:
        pid = p["id"]
        has = list((ROOT / "contracts").glob(f"{pid}_*.py"))
        if pid in CLAIMS and has:
            c = CLAIMS[pid]
            checks.append({
                "property_id": pid,
                "quick_cmd": f"./check {pid} --tier quick",
                "thorough_cmd": f"./check {pid} --tier thorough",
                "evidence_file": f"evidence/{pid}.json",
                "replay_cmd_template": f"./check {pid} --replay {{path}}",
                "engine": "vf",
                "level_claimed": {"category": c["level"], "text": c["text"], "design_ref": c["design"]},
                "level_note": COMMON_NOTE + c["note"],
                "technique": c["technique"],
            })
        else:
            na.append({"property_id": pid, "reason": extra_na.get(pid, "check not built yet in this session (planned, see DESIGN.md §3); not claimed until its contracts verify on the unchanged tree")})
    m = {
        "version": 1,
        "setup_cmd": "sh tools/setup.sh",
        "hooks": {"guard": "DARSIA_VERIF", "enable": "no source hooks: instrumentation is applied in memory to the functions of /repo/src at check time (DARSIA_VERIF=1 is exported by ./check for completeness)",
                  "baseline_off_cmd": BASELINE_CMD, "source_commits": [], "add_only": True},
        "engines": [{"name": "vf", "path": "vf/", "serves_properties": [c["property_id"] for c in checks],
                     "kind_free_text": "contract-based deductive verification of the real Python functions: side-car contracts (contracts/), mechanical instrumentation of the function source re-read from /repo on every run, symbolic execution on z3 terms over all paths, VCs discharged by z3; exact algebra (sympy) and AST->VC for tables and control-flow skeletons; bounded concrete evaluation of the same contracts as labelled stand-in"}],
        "checks": checks,
        "not_applicable": na,
        "notes": "See DESIGN.md. Exit codes of ./check: 0 held, 1 violation (VIOLATION line with replay file), 2 undecided, 3 checker error. known_findings.txt lists genuine defects left in the tree and the fixed: entries of repaired ones.",
    }
    (ROOT / "MANIFEST.json").write_text(json.dumps(m, indent=1) + "\n")
    print(f"{len(checks)} checks, {len(na)} not_applicable")


if __name__ == "__main__":
    main()
