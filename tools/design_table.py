#!/usr/bin/env python3
"""Print a markdown table 'per property, as measured by the last run' from evidence/*.json and tools/claims/*.json."""
import json
from pathlib import Path
ROOT = Path(__file__).resolve().parent.parent
print("| id | level | deductive obligations proved | VCs | bounded obligations passed | concrete runs | wall (s) | functions under contract |")
print("|---|---|---|---|---|---|---|---|")
for f in sorted((ROOT / "evidence").glob("C*.json")):
    e = json.loads(f.read_text())
    c = e["coverage"]
    lvl = json.loads((ROOT / "tools" / "claims" / f"{e['property_id']}.json").read_text())["level"]
    print(f"| {e['property_id']} | {lvl} | {c['discharged']} / {c['obligations']} | {c['verification_conditions']} | {c['bounded_passed']} / {c['bounded_obligations']} | {c['evaluations']} | {e['wall_s']} | {len(c['functions_under_contract'])} |")
