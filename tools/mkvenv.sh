#!/bin/sh
# Build the overlay venv (python 3.12 + z3-solver, sympy, icontract, cvc5 from the offline wheelhouse, plus a .pth onto
# /venv's site-packages so that darsia (editable, /repo/src) and its deps are importable).  Idempotent.
set -e
V="$(cd "$(dirname "$0")/.." && pwd)/.venv"
if [ -x "$V/bin/python" ] && "$V/bin/python" -c "import z3, sympy, numpy, icontract" 2>/dev/null; then exit 0; fi
rm -rf "$V"
/venv/bin/python -m venv "$V"
PIP_NO_INDEX=1 "$V/bin/pip" install -q --no-index --find-links /opt/veriftools/wheels z3-solver sympy icontract cvc5 jsonschema >/dev/null
echo "import site; site.addsitedir('/venv/lib/python3.12/site-packages')" > "$V/lib/python3.12/site-packages/zz_repo.pth"
"$V/bin/python" -c "import z3, sympy, numpy, icontract"
