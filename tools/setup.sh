#!/bin/sh
# MANIFEST.setup_cmd: build everything the checks need from files on disk only (offline).
set -e
cd "$(dirname "$0")/.."
sh tools/mkvenv.sh
.venv/bin/python -c "import z3, sympy, numpy, darsia; print('setup ok: z3', z3.get_version_string())" 2>&1 | tail -1
