#!/bin/sh
# MANIFEST.setup_cmd: build everything the checks need from files on disk only (offline).
set -e
cd "$(dirname "$0")/.."
sh tools/mkvenv.sh
.venv/bin/python -c "import z3, sympy, numpy, darsia; print('setup ok: z3', z3.get_version_string())" 2>&1 | tail -1
# lemma layer: Lean 4 + Mathlib (cached per file hash; the check C04.lemmas re-verifies when the cache is missing)
.venv/bin/python -m vf.lean | grep -E '"ok"|"cached"' || true
