#!/usr/bin/env python3
"""Run every kept seeded change (seeded/<id>/patch.diff) against the check of the property it breaks; record the outcome in
seeded/<id>/meta.json and print a table.  /repo is restored after every run (also on failure)."""
import json, subprocess, sys, re, shutil, os
from pathlib import Path
ROOT = Path(__file__).resolve().parent.parent
only = sys.argv[1:]
rows = []
assert subprocess.run(["git", "-C", "/repo", "diff", "--quiet"]).returncode == 0, "repo dirty"
bak = Path("/tmp/evidence.bak.matrix")
if bak.exists(): shutil.rmtree(bak)
shutil.copytree(ROOT / "evidence", bak)
try:
    for d in sorted((ROOT / "seeded").iterdir()):
        sid = d.name
        if only and sid not in only: continue
        prop = sid.split("_")[0]
        ap = subprocess.run(["git", "-C", "/repo", "apply", str(d / "patch.diff")], capture_output=True, text=True)
        if ap.returncode != 0:
            rows.append((sid, "patch does not apply to current HEAD", [])); continue
        try:
            r = subprocess.run([str(ROOT / "check"), prop], capture_output=True, text=True, cwd=ROOT, timeout=1500)
            out = r.stdout
            viol = re.findall(r"VIOLATION property=\S+ replay=replays/(\S+?)\.json", out)
            obls = sorted({v.split("_")[0] if False else re.match(r"(C\d+\.[a-z_0-9]+)", v).group(1) for v in viol if re.match(r"(C\d+\.[a-z_0-9]+)", v)})
            head = [l for l in out.splitlines() if l.startswith("[")][:1]
            rows.append((sid, f"exit={r.returncode}", obls, len(viol), head[0] if head else ""))
        finally:
            subprocess.run(["git", "-C", "/repo", "checkout", "--", "."])
        # meta.json
        agent = {}
        if (d / "meta.agent.json").exists():
            try: agent = json.loads((d / "meta.agent.json").read_text())
            except Exception: agent = {}
        conf = dict(l.split("=", 1) for l in (d / "confirm.txt").read_text().splitlines() if "=" in l) if (d / "confirm.txt").exists() else {}
        meta = {
            "property": prop,
            "summary": agent.get("summary", ""),
            "needs": agent.get("needs", ""),
            "files": agent.get("files", []),
            "origin": "written by an independent sub-agent that saw only the property text and a scratch worktree of /repo (nothing from /verif)",
            "confirmed_by_me": {
                "how": "tools/confirm_seed.sh: fresh scratch worktree of /repo HEAD; demo.py without the patch, git apply, demo.py with the patch, unit suite with the patch; worktree removed afterwards",
                "repo_head": conf.get("head"), "patch_applies": conf.get("applies") == "0", "demo_without_change_exit": conf.get("demo_without"),
                "demo_with_change_exit": conf.get("demo_with"), "unit_suite_with_change_exit": conf.get("suite_with"), "unit_suite_summary": conf.get("suite_summary"),
            },
            "check_result": {"command": f"git -C /repo apply seeded/{sid}/patch.diff && ./check {prop}; git -C /repo checkout -- .",
                             "exit": rows[-1][1], "violations": rows[-1][3] if len(rows[-1]) > 3 else 0, "failed_obligations": rows[-1][2]},
        }
        (d / "meta.json").write_text(json.dumps(meta, indent=1) + "\n")
finally:
    subprocess.run(["git", "-C", "/repo", "checkout", "--", "."])
    shutil.rmtree(ROOT / "evidence"); shutil.move(str(bak), str(ROOT / "evidence"))
for r in rows:
    print(r[0], r[1], ",".join(r[2]) if r[2] else "-", sep="\t")
