#!/bin/sh
# tools/mut.sh <prop> <file-under-/repo> <python-regex-old> <new>   — apply one textual mutation to /repo, run the quick check, restore.
# (development aid: engine self-test against deliberate breakage; never leaves /repo modified)
PROP="$1"; FILE="$2"; OLD="$3"; NEW="$4"; shift 4
cd /repo || exit 3
if ! git diff --quiet; then echo "repo dirty"; exit 3; fi
python3 - "$FILE" "$OLD" "$NEW" <<'PY'
import sys,re
f,old,new=sys.argv[1:4]
s=open(f).read()
if old not in s: print("PATTERN NOT FOUND"); sys.exit(1)
if s.count(old)!=1: print("pattern occurs",s.count(old),"times; replacing first")
open(f,'w').write(s.replace(old,new,1))
PY
[ $? -eq 0 ] || { git checkout -- .; exit 3; }
cp -r /verif/evidence /tmp/evidence.bak.$$; cd /verif && ./check "$PROP" "$@" 2>&1 | grep -E "^\[|VIOLATION|UNDECIDED|DOWNGRADED|CRASH|KNOWN" | head -12
echo "exit=$?"
cd /repo && git checkout -- .
rm -rf /verif/evidence && mv /tmp/evidence.bak.$$ /verif/evidence
