#!/bin/sh
# tools/seedtest.sh <dir-with-patch.diff> <prop> [check args]: apply a seeded change to /repo, run the check, undo (always, via trap).
D="$1"; PROP="$2"; shift 2
cd /repo || exit 3
git diff --quiet || { echo "repo dirty"; exit 3; }
cp -r /verif/evidence /tmp/evidence.bak.$$
restore() { git -C /repo checkout -- . ; rm -rf /verif/evidence; mv /tmp/evidence.bak.$$ /verif/evidence; }
trap restore EXIT HUP INT TERM PIPE
git apply "$D/patch.diff" || { echo "patch does not apply"; exit 3; }
cd /verif && ./check "$PROP" "$@" > /tmp/seedtest.$$.log 2>&1; RC=$?
restore; trap - EXIT HUP INT TERM PIPE
grep -E "^\[|VIOLATION|UNDECIDED|DOWNGRADED|CRASH|KNOWN" /tmp/seedtest.$$.log | head -8
echo "exit=$RC"; rm -f /tmp/seedtest.$$.log
