#!/usr/bin/env python3
"""Validate MANIFEST.json and evidence/*.json against the given schemas."""
import json, sys, glob
from jsonschema import Draft202012Validator as V
ok = True
m = json.load(open('/verif/MANIFEST.json'))
for e in V(json.load(open('/root/.vp/MANIFEST.schema.json'))).iter_errors(m):
    ok = False; print("MANIFEST:", e.message[:200])
es = json.load(open('/root/.vp/EVIDENCE.schema.json'))
for f in sorted(glob.glob('/verif/evidence/*.json')):
    d = json.load(open(f))
    for e in V(es).iter_errors(d):
        ok = False; print(f, e.message[:200])
    c = d["coverage"]
    if d["level"] == "proof" and c.get("obligations") != c.get("discharged"):
        print(f, "proof level but discharged != obligations"); ok = False
print("valid" if ok else "INVALID"); sys.exit(0 if ok else 1)
