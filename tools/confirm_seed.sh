#!/bin/sh
# tools/confirm_seed.sh <seed-id>  (e.g. C02_a): confirm a seeded change from /tmp/seed/out/<id> in a fresh scratch worktree of
# /repo HEAD: patch applies, unit suite still passes with it, demo fails with it and passes without.  On success copy to
# /verif/seeded/<id>/ with a confirmation record.  The worktree is removed afterwards.
ID="$1"; SRC="${2:-/tmp/seed/out/$ID}"; WT="/tmp/confirm_$ID"
cd /repo || exit 3
git worktree remove --force "$WT" 2>/dev/null
git worktree add --detach "$WT" HEAD >/dev/null 2>&1 || exit 3
HEADC=$(git rev-parse --short HEAD)
R="$WT/.confirm.txt"; : > "$R"
cd "$WT"
PYTHONPATH="$WT/src" /venv/bin/python "$SRC/demo.py" >/dev/null 2>&1; echo "demo_without=$?" >> "$R"
if git apply "$SRC/patch.diff" 2>/dev/null; then echo "applies=0" >> "$R"; else echo "applies=1" >> "$R"; fi
PYTHONPATH="$WT/src" /venv/bin/python "$SRC/demo.py" >/dev/null 2>&1; echo "demo_with=$?" >> "$R"
PYTHONPATH="$WT/src" /venv/bin/python -m pytest tests/unit -q -p no:cacheprovider --timeout=900 -x > "$WT/.suite.txt" 2>&1; echo "suite_with=$?" >> "$R"
tail -1 "$WT/.suite.txt" | sed 's/^/suite_summary=/' >> "$R"
echo "head=$HEADC" >> "$R"
mkdir -p /verif/seeded/$ID
cp "$SRC/patch.diff" "$SRC/demo.py" /verif/seeded/$ID/
cp "$R" /verif/seeded/$ID/confirm.txt
cp "$SRC/meta.json" /verif/seeded/$ID/meta.agent.json 2>/dev/null
cat "$R"
cd /repo && git worktree remove --force "$WT"
