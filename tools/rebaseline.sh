#!/bin/sh
# re-record baseline_obligations.json for every claimed property (quick tier; pass "thorough" for that tier) on the CURRENT tree —
# run only on the unchanged /repo, after contract edits
cd "$(dirname "$0")/.."
TIER="${1:-quick}"
git -C /repo diff --quiet || { echo "repo dirty"; exit 3; }
for p in $(python3 -c "import json;print(' '.join(c['property_id'] for c in json.load(open('MANIFEST.json'))['checks']))"); do
  ./check $p --tier $TIER --write-baseline > /tmp/rebase_$p.log 2>&1; ./check $p --tier $TIER > /tmp/rebase_$p.log 2>&1; rc=$?
  echo "$p exit=$rc $(grep '^\[' /tmp/rebase_$p.log | cut -c1-120)"
  grep -E "VIOLATION|UNDECIDED|CRASH|VACUITY|DOWNGRADED" /tmp/rebase_$p.log | head -3
done
.venv/bin/python tools/validate.py
