"""C15 — every quadrature rule is exact to its nominal degree (back end X: exact algebra on the real tables)."""
import itertools

import numpy as np
import sympy as sp

from vf.core import ob
from vf.exact import exact_module, is_positive, is_zero

FUNCS = ["darsia.utils.quadrature:gauss", "darsia.utils.quadrature:gauss_reference_cell",
         "darsia.utils.quadrature:reference_cell_corners"]
MOD = "darsia.utils.quadrature"

# every (dimension, order) the API accepts (everything else raises NotImplementedError — checked by C15.domain)
ORDERS = {1: [0, 1, 2, 3, 4, "max"], 2: [0, 1, 2, 3, "max"], 3: [0, 1, 2, "max"]}
CASES = [dict(dim=d, order=o, cell=c) for d in (1, 2, 3) for o in ORDERS[d] for c in ("ref", "unit")]


def _rows(pts, dim, n):
    # one entry along the first axis per point (zip(points, weights) pairs them), each with `dim` coordinates (a bare number in 1-D is accepted)
    a = np.array(pts, dtype=object)
    return a.reshape(n, dim) if (a.ndim >= 1 and a.shape[0] == n and a.size == n * dim) else None


def _moment(cell, al):
    """Integral of prod x_k^al_k over [-1,1]^d ('ref') or [0,1]^d ('unit'); unit-cell weights are normalised to 1."""
    if cell == "ref":
        return sp.prod([sp.Rational(2, a + 1) if a % 2 == 0 else sp.Integer(0) for a in al])
    return sp.prod([sp.Rational(1, a + 1) for a in al])


@ob("C15.exact", kind="X", cases=CASES, funcs=FUNCS, samples=(0, 0),
    cite="as many weights as points, positive weights summing to the measure of the cell, and integrates every polynomial of "
         "per-variable degree up to 2n-1 (n points per direction) exactly ... including the ones selected by default",
    note="exhaustive over every (dimension, order) the API accepts incl. 'max', both cells, all monomials up to the nominal degree")
def c15_exact(ctx, dim, order, cell):
    ns = exact_module(MOD)
    pts, w = (ns["gauss"] if cell == "ref" else ns["gauss_reference_cell"])(dim, order)
    w = list(np.array(w, dtype=object).flat)
    P = _rows(pts, dim, len(w))
    ctx.ensure("as many weights as points", P is not None)
    if P is None:
        return
    npts = len(w)
    n = round(npts ** (1.0 / dim))
    ctx.ensure("tensor rule: number of points is n^dim", n ** dim == npts)
    ctx.ensure("weights positive", all(is_positive(x) for x in w))
    measure = sp.Integer(2) ** dim if cell == "ref" else sp.Integer(1)
    ctx.ensure("weights sum to the measure of the cell", is_zero(sum(w) - measure))
    lo = -1 if cell == "ref" else 0
    ctx.ensure("points inside the cell", all(is_positive(x - lo) and is_positive(1 - x) for x in P.flat))
    deg = 2 * n - 1
    bad = []
    for al in itertools.product(range(deg + 1), repeat=dim):
        lhs = sum(w[i] * sp.prod([P[i][k] ** al[k] for k in range(dim)]) for i in range(npts))
        if not is_zero(lhs - _moment(cell, al)):
            bad.append(al)
    ctx.ensure(f"exact for all {(deg + 1) ** dim} monomials of per-variable degree <= {deg}" + (f"; fails for {bad[:4]}" if bad else ""), not bad)
    # "max" is the highest implemented order
    if order == "max":
        top = max(o for o in ORDERS[dim] if o != "max")
        p2, w2 = (ns["gauss"] if cell == "ref" else ns["gauss_reference_cell"])(dim, top)
        ctx.ensure("'max' selects the highest implemented order", len(list(np.array(w2, dtype=object).flat)) == npts
                   and all(is_zero(a - b) for a, b in zip(np.array(p2, dtype=object).flat, np.array(pts, dtype=object).flat)))


@ob("C15.corners", kind="X", cases=[dict(dim=d) for d in (1, 2, 3)], funcs=FUNCS, samples=(0, 0),
    cite="The corner rule integrates multilinear functions exactly")
def c15_corners(ctx, dim):
    ns = exact_module(MOD)
    c, w = ns["reference_cell_corners"](dim)
    w = list(np.array(w, dtype=object).flat)
    P = _rows(c, dim, len(w))
    ctx.ensure("2^dim corners, as many weights", P is not None and len(w) == 2 ** dim)
    if P is None:
        return
    ctx.ensure("corners are exactly the vertices of the unit cell", sorted(tuple(int(x) for x in r) for r in P) == sorted(itertools.product((0, 1), repeat=dim)))
    ctx.ensure("weights positive", all(is_positive(x) for x in w))
    ctx.ensure("weights sum to 1", is_zero(sum(w) - 1))
    bad = []
    for al in itertools.product((0, 1), repeat=dim):
        lhs = sum(w[i] * sp.prod([P[i][k] ** al[k] for k in range(dim)]) for i in range(len(w)))
        if not is_zero(lhs - _moment("unit", al)):
            bad.append(al)
    ctx.ensure("exact for every multilinear monomial", not bad)


@ob("C15.domain", kind="X", cases=[{}], funcs=FUNCS, samples=(0, 0),
    cite="all (dimension, order) pairs the API accepts", note="the accepted pairs are exactly the enumerated ones")
def c15_domain(ctx):
    import darsia.utils.quadrature as q
    for dim in (1, 2, 3):
        for order in list(range(0, 7)) + ["max"]:
            try:
                q.gauss(dim, order)
                ok = True
            except NotImplementedError:
                ok = False
            ctx.ensure(f"gauss({dim}, {order!r}) accepted iff enumerated by the contract", ok == (order in ORDERS[dim]))
    for dim in (0, 4):
        try:
            q.gauss(dim, 1)
            ok = True
        except NotImplementedError:
            ok = False
        ctx.ensure(f"gauss({dim}, 1) rejected", not ok)


@ob("C15.pure", kind="X", cases=[dict(dim=d, order=o) for d in (1, 2, 3) for o in ORDERS[d]], funcs=FUNCS, samples=(0, 0),
    cite="Each quadrature rule offered ... (a rule must not depend on which rules were requested before)",
    note="history: every interleaving of gauss / gauss_reference_cell requests for the same rule returns the same tables, in exact "
         "arithmetic and natively in float64")
def c15_pure(ctx, dim, order):
    import darsia.utils.quadrature as q
    for label, g, r in (("exact", *(lambda ns: (ns["gauss"], ns["gauss_reference_cell"]))(exact_module(MOD))), ("float64", q.gauss, q.gauss_reference_cell)):
        zero = is_zero if label == "exact" else (lambda e: abs(float(e)) < 1e-14)
        flat = lambda t: [x for a in t for x in np.array(a, dtype=object).flat]
        a0, b0 = flat(g(dim, order)), flat(r(dim, order))
        a1, b1 = flat(g(dim, order)), flat(r(dim, order))
        b2, a2 = flat(r(dim, order)), flat(g(dim, order))
        for name, x, y in (("gauss after gauss_reference_cell", a0, a1), ("gauss_reference_cell repeated", b0, b1),
                           ("gauss_reference_cell again", b0, b2), ("gauss after two unit-cell requests", a0, a2)):
            ctx.ensure(f"{label}: {name} returns the same rule", len(x) == len(y) and all(zero(p - q_) for p, q_ in zip(x, y)))
    c0 = q.reference_cell_corners(dim)
    c1 = q.reference_cell_corners(dim)
    ctx.ensure("corner rule repeated returns the same rule", all(np.array_equal(u, v) for u, v in zip(c0, c1)))
    # the tables handed out are the caller's own: mapping them to a physical cell IN PLACE (pts *= h; pts += x0) must not change what later callers get
    for name, fn in (("gauss", lambda: q.gauss(dim, order)), ("gauss_reference_cell", lambda: q.gauss_reference_cell(dim, order)), ("reference_cell_corners", lambda: q.reference_cell_corners(dim))):
        first = fn()
        keep = [np.array(t, dtype=float).copy() for t in first]
        for t in first:
            if isinstance(t, np.ndarray) and t.flags.writeable:
                t *= 3.0
                t += 0.25
        again = fn()
        ctx.ensure(f"{name}: a later request is not affected by an in-place edit of an earlier result",
                   len(again) == len(keep) and all(np.shape(u) == np.shape(v) and bool(np.array_equal(np.array(u, dtype=float), v)) for u, v in zip(again, keep)))
        ctx.ensure(f"{name}: two results share no memory", not any(isinstance(u, np.ndarray) and isinstance(v, np.ndarray) and np.shares_memory(u, v) for u in first for v in again))
