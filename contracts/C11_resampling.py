"""C11 — resampling and axis reduction conserve integrals."""
import itertools

import numpy as np

import darsia
from vf import stubs
from vf.core import and_, eq, ob, product_cases, same

MODS = ["darsia.restoration.resize", "darsia.signals.reduction.dimensionreduction", "darsia.image.image", "darsia.image.coordinatesystem"]
FUNCS = ["darsia.restoration.resize:Resize.__init__", "darsia.restoration.resize:Resize.__call__", "darsia.restoration.resize:resize",
         "darsia.restoration.resize:uniform_refinement", "darsia.restoration.resize:equalize_voxel_size",
         "darsia.signals.reduction.dimensionreduction:AxisReduction.__call__", "darsia.signals.reduction.dimensionreduction:AxisReduction.__init__",
         "darsia.signals.reduction.dimensionreduction:extrude_along_axis", "darsia.image.arithmetics:superpose", "darsia.image.subregions:extract_quadrilateral_ROI"]
STUBS = {"cv2.resize": stubs.cv2_resize_full_stub, "cv2.split": stubs.cv2_split_stub, "cv2.merge": stubs.cv2_merge_stub}


def mk(ctx, shape, payload="scalar", name="x"):
    full = list(shape) + {"scalar": [], "vector": [3], "series": [2], "vector-series": [2, 3]}[payload]
    arr = ctx.array(name, full, sample=(0.0, 2.0))
    dim = len(shape)
    d = ctx.reals("d", dim, pos=True, sample=(0.5, 4.0))
    o = ctx.reals("o", dim, sample=(-3.0, 3.0))
    kw = dict(space_dim=dim, scalar=payload in ("scalar", "series"), series=payload in ("series", "vector-series"), dimensions=list(d), origin=list(o))
    if kw["series"]:
        kw["time"] = [0.0, 1.0]
    return darsia.Image(arr, **kw), arr, d, o


def integral(img):
    """physical integral per (time, component): sum over voxels * voxel volume"""
    vol = 1
    for h in img.voxel_size:
        vol = vol * h
    s = img.img
    for _ in range(img.space_dim):
        s = np.sum(s, axis=0)
    return s * vol


def _ref_cases(tier):
    out = []
    for shape in [(2, 3), (4, 2)] + ([(1, 1), (8, 4), (4, 4)] if tier != "quick" else []):
        for payload in ("scalar", "vector-series"):
            for level in (1, 2, -1, -2) if tier == "quick" else (1, 2, 3, -1, -2, -3):
                if level < 0 and any(n % (2 ** -level) for n in shape):
                    continue
                out.append(dict(shape=shape, payload=payload, level=level))
    for payload in ("scalar", "vector-series"):
        out.append(dict(shape=(2, 3), payload=payload, level=0))            # level 0: nothing to resample - still a NEW image
    if tier == "quick":
        out.append(dict(shape=(2, 3), payload="scalar", level=3))
        out.append(dict(shape=(8, 8), payload="scalar", level=-3))
    out.append(dict(shape=(2, 2, 2), payload="scalar", level=1))
    out.append(dict(shape=(2, 4, 2), payload="scalar", level=-1))
    return out


@ob("C11.refine", cases=_ref_cases, mods=MODS, funcs=FUNCS, stubs=STUBS, samples=(1, 3),
    cite="uniform refinement and coarsening ... preserve the physical integral of the data ... and keep the physical extent ... refinement followed by coarsening is the identity",
    note="extents divisible by 2^k for coarsening by k levels (odd extents: see C11.coarsen_odd)")
def c11_refine(ctx, shape, payload, level):
    img, arr, d, o = mk(ctx, shape, payload)
    out = darsia.uniform_refinement(img, level)
    dim = len(shape)
    k = abs(level)
    f = 2 ** k
    want_shape = tuple(n * f for n in shape) if level > 0 else tuple(n // f for n in shape)
    ctx.ensure("spatial shape scaled by 2^level per axis", tuple(out.img.shape[:dim]) == want_shape and tuple(out.img.shape[dim:]) == tuple(arr.shape[dim:]))
    ctx.ensure("physical extent and origin kept", and_(eq(list(out.dimensions), list(d)), eq(list(out.origin), list(o))))
    ctx.ensure("physical integral conserved (per time step and component)", eq(integral(out), integral(img)))
    if level > 0:
        rep = arr
        for ax in range(dim):
            rep = np.repeat(rep, f, axis=ax)
        ctx.ensure("refinement repeats every voxel 2^level times per axis", same(out.img, rep))
        back = darsia.uniform_refinement(out, -level)
        ctx.ensure("refinement followed by coarsening is the identity", eq(back.img, arr))
    else:
        want = np.empty(out.img.shape, dtype=object)
        for v in np.ndindex(*out.img.shape):
            blk = arr[tuple(slice(v[a] * f, (v[a] + 1) * f) for a in range(dim)) + v[dim:]]
            want[v] = sum(blk.flat) / (f ** dim)
        ctx.ensure("coarsening averages the 2^|level| blocks", eq(out.img, want))
    ctx.ensure("input untouched", img.img is arr)
    # the result is the caller's own image: it shares no memory with the argument (a later in-place edit of one must not reach the other)
    ctx.ensure("result is a new image whose array does not share memory with the argument's", out is not img and out.img is not arr and not np.shares_memory(out.img, arr))
    if level == 0:
        ctx.ensure("level 0 returns the data unchanged", same(out.img, arr))


@ob("C11.coarsen_odd", cases=[dict(shape=(3, 2)), dict(shape=(2, 5)), dict(shape=(6, 2), level=-2)], mods=MODS, funcs=FUNCS, stubs=STUBS, samples=(1, 2),
    cite="2-D images of all shapes incl. odd extents ... refinement levels -3..3: coarsening preserves the physical integral")
def c11_coarsen_odd(ctx, shape, level=-1):
    img, arr, d, o = mk(ctx, shape, "scalar")
    ctx.witness("odd_extent_at_a_coarsening_level", True)
    out = darsia.uniform_refinement(img, level)
    ctx.ensure("physical integral conserved", eq(integral(out), integral(img)))


def _reduce_cases(tier):
    out = []
    for shape in ((2, 3), (2, 3, 2)):
        for ax in range(len(shape)):
            for mode in ("sum", "average"):
                for by in ("index", "name"):
                    for payload in ("scalar",) if tier == "quick" and len(shape) == 3 else ("scalar", "series"):
                        out.append(dict(shape=shape, axis=ax, mode=mode, by=by, payload=payload))
    return out


# matrix axis -> (cartesian axis, sign)   (see C01)
SPEC = {2: [(1, -1), (0, 1)], 3: [(2, -1), (0, 1), (1, -1)]}


@ob("C11.reduce", cases=_reduce_cases, mods=MODS, funcs=FUNCS, stubs=STUBS, samples=(1, 3),
    cite="summation or averaging along an axis ... Summation along an axis equals the plain array sum, averaging equals the sum divided by the "
         "number of voxels ... keep the physical extent of the retained axes ... every axis of 2-D and 3-D images addressed by index or Cartesian name")
def c11_reduce(ctx, shape, axis, mode, by, payload):
    img, arr, d, o = mk(ctx, shape, payload)
    dim = len(shape)
    name = "xyz"[SPEC[dim][axis][0]]
    out = darsia.reduce_axis(img, axis if by == "index" else name, mode=mode)
    s = np.sum(arr, axis=axis)
    ctx.ensure("sum == plain array sum along the matrix axis / average == sum / number of voxels", eq(out.img, s if mode == "sum" else s / shape[axis]))
    keep = [m for m in range(dim) if m != axis]
    ctx.ensure("retained axes keep their extents (voxels and physical dimensions)", and_(tuple(out.img.shape[:dim - 1]) == tuple(shape[m] for m in keep),
               eq(list(out.dimensions), [d[m] for m in keep]), out.space_dim == dim - 1))
    # physical placement of the retained axes: voxel (0,..) of the result sits where the parent's voxel 0 sits along the retained Cartesian axes
    # Cartesian bounding box of the retained axes is unchanged
    pcs, ocs = img.coordinatesystem, out.coordinatesystem
    kept_cart = sorted(SPEC[dim][m][0] for m in keep)
    if dim == 3 and axis == 0:
        # dropping the first matrix axis of a 3-D image re-labels the two retained matrix axes (j, k) -> (i', j'); the statement only
        # asks for the extents, so: same minimum corner and the same extents (as a set) along the retained Cartesian axes
        ext_p = [pcs.max_coordinate[c] - pcs.min_coordinate[c] for c in kept_cart]
        ext_o = [ocs.max_coordinate[i] - ocs.min_coordinate[i] for i in range(2)]
        ctx.ensure("retained Cartesian axes keep their minimum corner and their extents", and_(
            eq([ocs.min_coordinate[i] for i in range(2)], [pcs.min_coordinate[c] for c in kept_cart]),
            eq(ext_o[0] + ext_o[1], ext_p[0] + ext_p[1]), eq(ext_o[0] * ext_o[1], ext_p[0] * ext_p[1])))
    else:
        ctx.ensure("retained Cartesian axes keep their physical range", and_(
            eq([ocs.min_coordinate[i] for i in range(dim - 1)], [pcs.min_coordinate[c] for c in kept_cart]),
            eq([ocs.max_coordinate[i] for i in range(dim - 1)], [pcs.max_coordinate[c] for c in kept_cart])))
    vol_red = d[axis]
    if mode == "sum":
        ctx.ensure("integral of the sum * voxel size along the reduced axis == integral of the data", eq(integral(out) * (d[axis] / shape[axis]), integral(img)))
    else:
        ctx.ensure("integral of the average * extent of the reduced axis == integral of the data", eq(integral(out) * d[axis], integral(img)))
    ctx.ensure("time metadata kept", out.series == img.series and out.time == img.time)
    ctx.ensure("input untouched", img.img is arr and same(arr, arr))


@ob("C11.extrude", cases=product_cases(num=(1, 3), payload=("scalar", "vector")), mods=MODS, funcs=FUNCS, stubs=STUBS, samples=(1, 3),
    cite="extrusion ... preserve ... its documented counterpart such as integral times extrusion height")
def c11_extrude(ctx, num, payload):
    img, arr, d, o = mk(ctx, (2, 3), payload)
    hgt = ctx.real("height", pos=True, sample=(0.5, 3.0))
    out = darsia.extrude_along_axis(img, hgt, num)
    ctx.ensure("3-D image with num layers, each equal to the 2-D data", out.space_dim == 3 and out.img.shape[0] == num and all(same(out.img[k], arr) for k in range(num)))
    ctx.ensure("dimensions == [height, *dimensions]", eq(list(out.dimensions), [hgt] + list(d)))
    ctx.ensure("integral of the extruded image == height * integral of the 2-D image", eq(integral(out), hgt * integral(img)))
    ctx.ensure("input untouched", img.img is arr)


def _resize_cases(tier):
    out = []
    for shape, target in [((4, 6), (2, 3)), ((4, 6), (2, 6)), ((2, 3), (4, 6)), ((2, 3), (2, 9)), ((4, 4), (1, 2)), ((3, 3), (3, 3))]:
        for payload in ("scalar", "vector") if tier == "quick" else ("scalar", "vector", "series", "vector-series"):
            for form in ("image", "array"):
                out.append(dict(shape=shape, target=target, payload=payload, form=form))
    return out


@ob("C11.resize", cases=_resize_cases, mods=MODS, funcs=FUNCS, stubs=STUBS, samples=(1, 3), tol=1e-6,
    cite="Conservative resizing (pure down-sampling or integer up-sampling) ... preserve the physical integral of the data ... and keep the physical extent",
    note="cv2.resize(INTER_AREA) / split / merge through assumed contracts (integer ratios); the real OpenCV is exercised by C11.resize_cv2")
def c11_resize(ctx, shape, target, payload, form):
    img, arr, d, o = mk(ctx, shape, payload)
    R = darsia.Resize(shape=target, interpolation="inter_area", **{"resize conservative": True})
    out = R(img if form == "image" else arr)
    res = out.img if form == "image" else out
    ctx.ensure("spatial shape is the target, payload axes kept", tuple(res.shape[:2]) == tuple(target) and tuple(res.shape[2:]) == tuple(arr.shape[2:]))
    tot = lambda a: np.sum(np.sum(a, axis=0), axis=0)
    ctx.ensure("array sum conserved per (time, component)", eq(tot(res), tot(arr)))
    if form == "image":
        ctx.ensure("physical extent and origin kept", and_(eq(list(out.dimensions), list(d)), eq(list(out.origin), list(o))))
        ctx.ensure("input image untouched", img.img is arr)
    # block structure: down-sampling sums blocks, up-sampling spreads every voxel evenly
    fy, fx = shape[0] / target[0], shape[1] / target[1]
    if fy >= 1 and fx >= 1:
        by, bx = int(fy), int(fx)
        want = np.empty(res.shape, dtype=object)
        for v in np.ndindex(*res.shape):
            blk = arr[(slice(v[0] * by, (v[0] + 1) * by), slice(v[1] * bx, (v[1] + 1) * bx)) + v[2:]]
            want[v] = sum(blk.flat)
        ctx.ensure("pure down-sampling: every target voxel holds the sum of its source block", eq(res, want))


@ob("C11.resize_history", cases=[dict(first=(4, 4), second=(6, 4), target=(2, 2)), dict(first=(2, 2), second=(4, 6), target=(2, 2)), dict(first=(6, 4), second=(2, 2), target=(2, 2)),
                                  dict(first=(2, 3), second=(2, 3), target=(4, 6))], mods=MODS, funcs=FUNCS, stubs=STUBS, samples=(1, 3), tol=1e-6,
    cite="Conservative resizing ... preserve the physical integral of the data (whatever the resize object was applied to before)",
    note="one Resize object applied to two images of different resolution: the second result must be conservative for ITS input")
def c11_resize_history(ctx, first, second, target):
    R = darsia.Resize(shape=target, interpolation="inter_area", **{"resize conservative": True})
    a = ctx.array("a", first, sample=(0.0, 2.0))
    b = ctx.array("b", second, sample=(0.0, 2.0))
    R(a)
    out = R(b)
    fresh = darsia.Resize(shape=target, interpolation="inter_area", **{"resize conservative": True})(b)
    ctx.ensure("second application conserves the sum of ITS input", eq(np.sum(out), np.sum(b)))
    ctx.ensure("re-used resize object == fresh resize object", eq(out, fresh))


@ob("C11.resize_cv2", kind="B", cases=[dict(dtype="float64"), dict(dtype="float32")], funcs=FUNCS, samples=(1, 2), tol=1e-5,
    cite="2-D images of all shapes incl. odd extents, float32/float64 ... every target shape with both extents not larger, or integer multiples",
    note="bounded: the real cv2.resize on all source shapes <= 7x7 (quick; 9x9 thorough) and all admissible targets")
def c11_resize_cv2(ctx, dtype):
    rng = np.random.default_rng(ctx.rng.randrange(1 << 30))
    N = 7 if ctx.tier == "quick" else 9
    bad = []
    for h in range(1, N + 1):
        for w in range(1, N + 1):
            a = rng.random((h, w, 2)).astype(dtype)
            targets = [(th, tw) for th in range(1, h + 1) for tw in range(1, w + 1)] + [(h * k, w * l) for k in (1, 2, 3) for l in (1, 2, 3) if (k, l) != (1, 1)]
            for t in targets:
                out = darsia.Resize(shape=t, interpolation="inter_area", **{"resize conservative": True})(a)
                ctx.tick()
                if out.shape != (*t, 2) or not np.allclose(out.sum(axis=(0, 1)), a.sum(axis=(0, 1)), rtol=2e-5 if dtype == "float32" else 1e-6):
                    bad.append(((h, w), t))
    ctx.ensure(f"array sum conserved for every admissible target shape; failures: {bad[:5]}", not bad)
    # one object, successive inputs of different resolution
    R = darsia.Resize(shape=(3, 4), interpolation="inter_area", **{"resize conservative": True})
    for shp in ((6, 8), (9, 12), (3, 4), (6, 4)):
        a = rng.random(shp).astype(dtype)
        ctx.ensure(f"re-used Resize object on a {shp} input conserves the sum", bool(np.isclose(R(a).sum(), a.sum(), rtol=2e-5)))
    img = darsia.ScalarImage(rng.random((6, 8)).astype(dtype), dimensions=[1.5, 2.0], origin=[0.25, 3.0])
    out = darsia.resize(img, shape=(3, 4), interpolation="inter_area")
    ctx.ensure("resize keeps dimensions and origin", out.dimensions == img.dimensions and bool(np.allclose(out.origin, img.origin)))


@ob("C11.superpose", kind="B", cases=[dict(n=k, anchor=a) for k in (1, 2, 3, 4) for a in ("near", "far", "far-negative", "integer-metadata")], funcs=FUNCS, samples=(1, 3), tol=1e-6,
    cite="superposition of grid-aligned images onto a common canvas ... preserve the physical integral ... superposing images that share a grid equals adding their arrays",
    note="bounded: cv2.warpPerspective based; voxel-aligned, exactly representable offsets")
def c11_superpose(ctx, n, anchor):
    rng = np.random.default_rng(ctx.rng.randrange(1 << 30))
    # "far": millimetre voxels on a grid anchored ~1e3 voxel-size units from the coordinate origin - a whole-voxel offset is then below
    # the relative tolerance of np.allclose / np.isclose on the corner coordinates (all values exactly representable)
    h, ox, oy = {"near": (0.25, 1.0, 2.0), "far": (2.0 ** -10, 1024.0, 2048.0), "far-negative": (2.0 ** -10, -4096.0, 512.0), "integer-metadata": (0.5, 0, 2)}[anchor]
    shape = (4, 6)
    if anchor == "integer-metadata":
        # how a number is written is not part of its meaning: integral extents / origins are handed over as Python ints (integer-dtype
        # metadata arrays inside the images), the others as floats - in one list of images
        _Scalar = darsia.ScalarImage
        num = lambda v: int(v) if float(v).is_integer() else float(v)

        class _D:
            @staticmethod
            def ScalarImage(arr, dimensions, origin):
                return _Scalar(arr, dimensions=[num(v) for v in dimensions], origin=[num(v) for v in origin])
    else:
        _D = darsia
    same_grid = [_D.ScalarImage(rng.random(shape), dimensions=[shape[0] * h, shape[1] * h], origin=[ox, oy]) for _ in range(n)]
    out = darsia.superpose(same_grid)
    ctx.ensure("images sharing a grid: superposition == sum of the arrays", out.img.shape == shape and bool(np.allclose(out.img, sum(im.img for im in same_grid), atol=1e-9)))
    ctx.ensure("images sharing a grid: metadata kept", bool(np.allclose(out.origin, [ox, oy], rtol=0, atol=h * 1e-6)) and bool(np.allclose(out.dimensions, [shape[0] * h, shape[1] * h], rtol=1e-9, atol=0)))
    # same shape and voxel size, shifted by whole voxels
    shifted = []
    for k in range(n):
        off = (k % 2, (k + 1) // 2)
        shifted.append(_D.ScalarImage(rng.random(shape), dimensions=[shape[0] * h, shape[1] * h], origin=[ox + off[1] * h, oy - off[0] * h]))
    outs = darsia.superpose(shifted)
    rows_, cols_ = shape[0] + max(k % 2 for k in range(n)), shape[1] + max((k + 1) // 2 for k in range(n))
    tot = sum(im.img.sum() for im in shifted) * h * h
    ctx.ensure("equal-sized images shifted by whole voxels: canvas has the bounding-box shape", outs.img.shape[:2] == (rows_, cols_))
    ctx.ensure("equal-sized images shifted by whole voxels: physical integral == sum of the integrals", abs(outs.img.sum() * np.prod(outs.voxel_size) - tot) <= 1e-6 * tot)
    imgs = []
    for k in range(n):
        sh = (int(rng.integers(2, 5)), int(rng.integers(2, 6)))
        off = (int(rng.integers(-3, 4)), int(rng.integers(-3, 4)))            # in either direction: any image may hold an extremal corner
        if anchor == "integer-metadata" and k < 2:
            off = [(0, 0), (-1, -1)][k]            # the first image is written in integers, the second holds the (fractional) extremal corner
        imgs.append(_D.ScalarImage(rng.random(sh), dimensions=[sh[0] * h, sh[1] * h], origin=[ox + off[1] * h, oy - off[0] * h]))
    out = darsia.superpose(imgs)
    vol = h * h
    ctx.ensure("voxel-aligned offsets: physical integral of the superposition == sum of the integrals", abs(out.img.sum() * np.prod(out.voxel_size) - sum(im.img.sum() * vol for im in imgs)) <= 1e-6 * max(1.0, sum(im.img.sum() * vol for im in imgs)))
    ctx.ensure("canvas keeps the voxel size", bool(np.allclose(out.voxel_size, [h, h], rtol=1e-9, atol=0)))
    xmin = min(im.origin[0] for im in imgs); xmax = max(im.opposite_corner[0] for im in imgs)
    ymax = max(im.origin[1] for im in imgs); ymin = min(im.opposite_corner[1] for im in imgs)
    ctx.ensure("canvas extent == extremal corners of the inputs", bool(np.allclose(out.dimensions, [ymax - ymin, xmax - xmin], rtol=1e-9, atol=0)) and bool(np.allclose(out.origin, [xmin, ymax], rtol=0, atol=h * 1e-6)))
    ctx.ensure("inputs untouched", all(im.img.shape == s.img.shape for im, s in zip(imgs, imgs)))
    rev = darsia.superpose(imgs[::-1])
    ctx.ensure("the order of the list does not matter (canvas and data)", rev.img.shape == out.img.shape and bool(np.allclose(rev.img, out.img, atol=1e-9))
               and bool(np.allclose(rev.origin, out.origin, rtol=0, atol=h * 1e-6)) and bool(np.allclose(rev.dimensions, out.dimensions, rtol=1e-9, atol=0)))


@ob("C11.dep_cv2", kind="B", samples=(2, 6), funcs=[], tol=2e-7, cite="(validation of assumed dependency contracts)",
    note="the cv2.resize(INTER_AREA) (dsize and fx / fy forms), cv2.split and cv2.merge stubs against the installed OpenCV")
def c11_dep_cv2(ctx):
    from contracts import deps_validation as dv
    dv.dep_resize(ctx)
    dv.dep_split_merge(ctx)
