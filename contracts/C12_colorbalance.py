"""C12 — colour balancing recovers exact colour maps and composes correctly (colorbalance.py)."""
import itertools

import numpy as np

import darsia
from darsia.corrections.color import colorbalance as cb
from vf import stubs
from vf.core import and_, eq, le, ob, product_cases

MODS = ["darsia.corrections.color.colorbalance"]
FUNCS = ["darsia.corrections.color.colorbalance:BaseBalance.apply_balance", "darsia.corrections.color.colorbalance:AffineBalance.apply_balance",
         "darsia.corrections.color.colorbalance:ColorBalance.find_balance", "darsia.corrections.color.colorbalance:WhiteBalance.find_balance",
         "darsia.corrections.color.colorbalance:AffineBalance.find_balance", "darsia.corrections.color.colorbalance:AdaptiveBalance.find_balance",
         "darsia.corrections.color.colorbalance:AdaptiveBalance.reset"]
FREE = {"scipy.optimize.minimize": lambda ctx: stubs.minimize_stub(ctx, monotone=False)}
MONO = {"scipy.optimize.minimize": lambda ctx: stubs.minimize_stub(ctx, monotone=True)}
MODES = ("diagonal", "linear", "affine")


def stage_map(mode, x):
    """(A, b) of a stage from the optimiser's flat result, as the stage classes decode it."""
    x = np.asarray(x)
    if mode == "diagonal":
        A = np.zeros((3, 3), dtype=object)
        for i in range(3):
            A[i, i] = x[i]
        return A, np.zeros(3, dtype=object)
    if mode == "linear":
        return x.reshape(3, 3), np.zeros(3, dtype=object)
    return x[:9].reshape(3, 3), x[9:12]


def residual(mapped, dst):
    d = np.asarray(mapped) - np.asarray(dst)
    return np.sum(d * d)


def _seqs(tier):
    out = [s for n in (1, 2) for s in itertools.product(MODES, repeat=n)]
    out += list(itertools.product(MODES, repeat=3)) if tier == "thorough" else [("diagonal", "linear", "affine"), ("affine", "diagonal", "linear"), ("affine", "affine", "affine")]
    return [dict(stages="/".join(s)) for s in out]


@ob("C12.compose", cases=_seqs, mods=MODS, funcs=FUNCS, stubs=FREE, samples=(1, 2), tol=1e-5, budget={"timeout_ms": 20000},
    cite="When balances are fitted in stages (white balance, then colour balance), applying the accumulated balance equals applying "
         "the stage balances one after the other", note="stage fits return ARBITRARY balances (optimiser stub); every ordered pair, selected/all triples")
def c12_compose(ctx, stages):
    stages = stages.split("/")
    ctx.minimize_calls = []
    B = darsia.AdaptiveBalance()
    src = ctx.array("src", (2, 3), sample=(0.0, 1.0))
    dst = ctx.array("dst", (2, 3), sample=(0.0, 1.0))
    x = ctx.array("x", (2, 3), sample=(0.0, 1.0))
    seq_x, seq_src = x, src
    for k, mode in enumerate(stages):
        before = B.apply_balance(src)
        with stubs.record_minimize(ctx):
            B.find_balance(src, dst, mode=mode)
        call = ctx.minimize_calls[k]
        # the stage is fitted on the swatches as balanced so far, starting from the identity stage
        ctx.ensure(f"stage {k} ({mode}): objective at the initial guess is the residual of the balance accumulated so far",
                   eq(call["fun"](np.asarray(call["x0"])), residual(before, dst)))
        A, b = stage_map(mode, call["x"])
        seq_x = seq_x @ A + b
        seq_src = seq_src @ A + b
        ctx.ensure(f"after stage {k} ({mode}): accumulated balance applied to x == stages applied one after the other", eq(B.apply_balance(x), seq_x))
    ctx.ensure("accumulated balance on the swatches == staged application", eq(B.apply_balance(src), seq_src))
    B.reset()
    ctx.ensure("reset() restores the identity", eq(B.apply_balance(x), x))


CLASSES = {"diagonal": cb.WhiteBalance, "linear": cb.ColorBalance, "affine": cb.AffineBalance}


@ob("C12.start", cases=product_cases(kind=MODES, form=("flat", "grid")), mods=MODS, funcs=FUNCS, stubs=MONO, samples=(1, 2), tol=1e-5,
    cite="fitting never increases the swatch residual relative to the balance it started from",
    note="with the ASSUMED monotonicity of Powell's method; proved of the code: the optimiser is started at the current balance and the "
         "new balance is decoded from its result exactly as the objective decodes it")
def c12_start(ctx, kind, form):
    ctx.minimize_calls = []
    shape = (2, 3) if form == "flat" else (2, 2, 3)
    src = ctx.array("src", shape, sample=(0.0, 1.0))
    dst = ctx.array("dst", shape, sample=(0.0, 1.0))
    bal = CLASSES[kind]()
    # start from an arbitrary current balance (e.g. left by an earlier fit)
    if kind == "diagonal":
        bal.balance_scaling = np.diag(np.array(ctx.reals("a", 3, sample=(0.5, 1.5))))
    else:
        bal.balance_scaling = ctx.array("A", (3, 3), sample=(-0.5, 1.5))
    if kind == "affine":
        bal.balance_translation = np.array(ctx.reals("b", 3, sample=(-0.2, 0.2)))
    before = residual(bal.apply_balance(src), dst)
    with stubs.record_minimize(ctx):
        bal.find_balance(src, dst)
    call = ctx.minimize_calls[0]
    ctx.ensure("objective at the initial guess == swatch residual of the balance it started from", eq(call["fun"](np.asarray(call["x0"])), before))
    after = residual(bal.apply_balance(src), dst)
    ctx.ensure("swatch residual of the fitted balance == objective at the optimiser's result", eq(after, call["fun"](np.asarray(call["x"]))))
    ctx.ensure("residual does not increase (given Powell's monotonicity)", le(after, before))


@ob("C12.apply", cases=product_cases(kind=MODES + ("adaptive",), form=("flat", "grid")), mods=MODS, funcs=FUNCS, stubs=FREE, samples=(1, 2),
    cite="row-vector application img @ A + b")
def c12_apply(ctx, kind, form):
    shape = (2, 3) if form == "flat" else (2, 2, 3)
    img = ctx.array("img", shape, sample=(0.0, 1.0))
    bal = (CLASSES[kind] if kind != "adaptive" else cb.AdaptiveBalance)()
    A = ctx.array("A", (3, 3), sample=(-0.5, 1.5))
    bal.balance_scaling = A
    b = np.zeros(3, dtype=object)
    if kind in ("affine", "adaptive"):
        b = np.array(ctx.reals("b", 3, sample=(-0.2, 0.2)))
        bal.balance_translation = b
    out = bal.apply_balance(img)
    want = np.empty(shape, dtype=object)
    for idx in np.ndindex(*shape[:-1]):
        for c in range(3):
            want[idx + (c,)] = sum(img[idx + (k,)] * A[k, c] for k in range(3)) + b[c]
    ctx.ensure("apply_balance(img)[..., c] == sum_k img[..., k] * A[k, c] + b[c]", eq(out, want))
    ctx.ensure("image untouched", out is not img)


@ob("C12.recover", kind="B", cases=product_cases(kind=MODES, form=("flat", "grid")), funcs=FUNCS, samples=(2, 6), tol=2e-3,
    cite="fitting the corresponding balance and applying it to the sources reproduces the destinations within optimiser tolerance",
    note="bounded: real Powell optimiser on seeded random well-conditioned swatch sets and ground-truth maps near the identity")
def c12_recover(ctx, kind, form):
    rng = np.random.default_rng(ctx.rng.randrange(1 << 30))
    shape = (8, 3) if form == "flat" else (4, 6, 3)
    src = 0.1 + 0.8 * rng.random(shape)
    if kind == "diagonal":
        A, b = np.diag(1 + 0.2 * (rng.random(3) - 0.5)), np.zeros(3)
    else:
        A, b = np.eye(3) + 0.15 * (rng.random((3, 3)) - 0.5), np.zeros(3)
    if kind == "affine":
        b = 0.05 * (rng.random(3) - 0.5)
    dst = src @ A + b
    bal = CLASSES[kind]()
    r0 = residual(bal.apply_balance(src), dst)
    bal.find_balance(src, dst)
    out = bal.apply_balance(src)
    ctx.ensure("sources mapped onto destinations within optimiser tolerance", bool(np.max(np.abs(out - dst)) < 2e-3))
    ctx.ensure("residual not increased", residual(out, dst) <= r0 + 1e-12)
    # staged recovery through the adaptive balance
    ad = cb.AdaptiveBalance()
    ad.find_balance(src, dst, mode="diagonal")
    ad.find_balance(src, dst, mode=kind)
    ctx.ensure("staged (diagonal, then this mode) adaptive balance also maps sources onto destinations", bool(np.max(np.abs(ad.apply_balance(src) - dst)) < 2e-3))


@ob("C12.fresh_state", cases=product_cases(first=MODES, second=MODES), mods=MODS, funcs=FUNCS, stubs=FREE, samples=(1, 2), tol=1e-5, budget={"timeout_ms": 20000},
    cite="applying the accumulated balance equals applying the stage balances one after the other (for every balance object, whatever was fitted before in the process)",
    note="two balance objects in one process: the second starts from the identity, fitting it leaves the first untouched")
def c12_fresh_state(ctx, first, second):
    ctx.minimize_calls = []
    src = ctx.array("src", (2, 3), sample=(0.0, 1.0))
    dst = ctx.array("dst", (2, 3), sample=(0.0, 1.0))
    x = ctx.array("x", (2, 3), sample=(0.0, 1.0))
    A1 = darsia.AdaptiveBalance()
    with stubs.record_minimize(ctx):
        A1.find_balance(src, dst, mode=first)
    a1, b1 = stage_map(first, ctx.minimize_calls[0]["x"])
    A2 = darsia.AdaptiveBalance()
    ctx.ensure("a newly constructed adaptive balance is the identity", eq(A2.apply_balance(x), x))
    for cls in (cb.AffineBalance, cb.ColorBalance, cb.WhiteBalance):
        ctx.ensure(f"a newly constructed {cls.__name__} is the identity", eq(cls().apply_balance(x), x))
    with stubs.record_minimize(ctx):
        A2.find_balance(src, dst, mode=second)
    a2, b2 = stage_map(second, ctx.minimize_calls[1]["x"])
    ctx.ensure("second object: accumulated balance == its own single stage", eq(A2.apply_balance(x), x @ a2 + b2))
    ctx.ensure("first object unchanged by fitting the second", eq(A1.apply_balance(x), x @ a1 + b1))


@ob("C12.failed_stage", cases=product_cases(first=MODES, third=MODES), mods=MODS, funcs=FUNCS, stubs=FREE, samples=(1, 2), tol=1e-5, budget={"timeout_ms": 20000},
    cite="When balances are fitted in stages ..., applying the accumulated balance equals applying the stage balances one after the other (a stage that could not be fitted is no stage)",
    note="history with a FAILING call in between: find_balance with an unsupported mode raises; the balance accumulated so far is what it was, and the next stage composes with it "
         "(after seed C12_f: accumulated balance reset before the stage fit)")
def c12_failed_stage(ctx, first, third):
    ctx.minimize_calls = []
    src = ctx.array("src", (2, 3), sample=(0.0, 1.0))
    dst = ctx.array("dst", (2, 3), sample=(0.0, 1.0))
    x = ctx.array("x", (2, 3), sample=(0.0, 1.0))
    B = darsia.AdaptiveBalance()
    with stubs.record_minimize(ctx):
        B.find_balance(src, dst, mode=first)
    a1, b1 = stage_map(first, ctx.minimize_calls[0]["x"])
    raised = False
    try:
        with stubs.record_minimize(ctx):
            B.find_balance(src, dst, mode="cubic")
    except Exception:      # noqa: BLE001
        raised = True
    ctx.ensure("an unsupported mode is refused", raised and len(ctx.minimize_calls) == 1)
    ctx.ensure("after the refused call the accumulated balance is still the first stage", eq(B.apply_balance(x), x @ a1 + b1))
    with stubs.record_minimize(ctx):
        B.find_balance(src, dst, mode=third)
    a3, b3 = stage_map(third, ctx.minimize_calls[1]["x"])
    ctx.ensure("the next stage composes with the balance accumulated before the refused call", eq(B.apply_balance(x), (x @ a1 + b1) @ a3 + b3))


@ob("C12.dep_minimize", kind="B", samples=(2, 6), funcs=[], tol=1e-12, cite="(validation of an assumed dependency contract)",
    note="scipy.optimize.minimize(method='Powell'): length of the result and f(x) <= f(x0), on smooth, non-smooth and non-convex objectives")
def c12_dep_minimize(ctx):
    from contracts import deps_validation as dv
    dv.dep_minimize(ctx)
