"""C18 — saved images and corrections reload to equivalent objects."""
import ast
import contextlib
import inspect
import io
import itertools
import tempfile
import textwrap
from datetime import datetime, timedelta
from pathlib import Path

import numpy as np

import darsia
from vf.core import and_, eq, ob, product_cases, same

MODS = ["darsia.image.image", "darsia.image.imread", "darsia.image.coordinatesystem"]
FUNCS = ["darsia.image.image:Image.save", "darsia.image.image:Image.metadata", "darsia.image.image:Image.__init__", "darsia.image.image:OpticalImage.metadata",
         "darsia.image.imread:imread_from_npz", "darsia.image.imread:imread_from_bytes", "darsia.corrections.readcorrection:read_correction",
         "darsia.corrections.typecorrection:TypeCorrection.save", "darsia.corrections.typecorrection:TypeCorrection.load",
         "darsia.corrections.shape.drift:DriftCorrection.save", "darsia.corrections.shape.drift:DriftCorrection.load",
         "darsia.corrections.shape.curvature:CurvatureCorrection.save", "darsia.corrections.shape.curvature:CurvatureCorrection.load",
         "darsia.corrections.color.illuminationcorrection:IlluminationCorrection.save", "darsia.corrections.color.illuminationcorrection:IlluminationCorrection.load",
         "darsia.corrections.color.colorcorrection:ColorCorrection.save", "darsia.corrections.color.colorcorrection:ColorCorrection.load"]
T0 = datetime(2024, 2, 29, 23, 59, 30)


def _meta_cases(tier):
    out = []
    for dim in (1, 2, 3):
        for payload in ("scalar", "vector", "series", "vector-series"):
            for times in ("none", "date", "rel", "date+ref"):
                if tier == "quick" and dim != 2 and times in ("date+ref",) and payload in ("vector",):
                    continue
                out.append(dict(dim=dim, payload=payload, times=times))
    return out


def build(ctx, dim, payload, times, shape_only=True):
    n = ctx.ints("n", dim, lo=1, sample=(1, 4))
    d = ctx.reals("d", dim, pos=True, sample=(0.1, 9.0))
    o = ctx.reals("o", dim, sample=(-50.0, 50.0))
    full = list(n)
    series = payload in ("series", "vector-series")
    kw = dict(space_dim=dim, dimensions=list(d), origin=list(o), scalar=payload in ("scalar", "series"), series=series, name="sample image")
    nt = 2
    if series:
        full.append(nt)
    if not kw["scalar"]:
        full.append(3)
    if times in ("date", "date+ref"):
        kw["date"] = [T0 + timedelta(seconds=61 * k) for k in range(nt)] if series else T0
        if times == "date+ref":
            kw["reference_date"] = T0 - timedelta(days=1)
    elif times == "rel":
        kw["time"] = [ctx.real(f"t{k}", sample=(0.0, 99.0)) for k in range(nt)] if series else ctx.real("t", sample=(0.0, 99.0))
    arr = ctx.shape_array(full) if shape_only else None
    return darsia.Image(arr, **kw), n, d, o, kw


def meta_eq(m1, m2):
    if set(m1) != set(m2):
        return False
    oks = []
    for k in m1:
        a, b = m1[k], m2[k]
        if k in ("dimensions", "origin"):
            oks.append(eq(list(a), list(b)))
        elif k == "time":
            if isinstance(a, list) or isinstance(b, list):
                oks.append(isinstance(a, list) and isinstance(b, list) and len(a) == len(b) and and_(*[(x is None and y is None) or eq(x, y) for x, y in zip(a, b)]))
            else:
                oks.append((a is None and b is None) or (a is not None and b is not None and eq(a, b)))
        else:
            oks.append(a == b)
    return and_(*oks)


@ob("C18.ctor_fixpoint", cases=_meta_cases, mods=MODS, funcs=FUNCS, samples=(1, 3),
    cite="Saving any image ... and reading it back yields identical pixel data, dtype and metadata",
    note="save/imread_from_npz = np.savez / np.load (assumed: array and pickled dict round-trip) composed with Image(array, **metadata()): the constructor "
         "is proved to be a fixpoint on its own metadata for all shapes, sizes, origins and relative times (ShapeOnly image)")
def c18_ctor_fixpoint(ctx, dim, payload, times):
    img, n, d, o, kw = build(ctx, dim, payload, times)
    m = img.metadata()
    again = darsia.Image(img.img, **dict(m))
    ctx.ensure("Image(img, **image.metadata()) has the same metadata", meta_eq(again.metadata(), m))
    ctx.ensure("and holds the same array", again.img is img.img)
    ctx.ensure("derived quantities agree", and_(eq(list(again.voxel_size), list(img.voxel_size)), again.time_num == img.time_num, again.range_num == img.range_num,
                                                 again.space_dim == img.space_dim, again.series == img.series, again.scalar == img.scalar))
    ctx.ensure("metadata() does not hand out the image's own dict", m is not img.metadata())
    ctx.ensure("reference date: explicit one kept, else the (first) date", again.reference_date == img.reference_date and img.reference_date == kw.get("reference_date", (kw["date"][0] if isinstance(kw.get("date"), list) else kw.get("date"))))


def _decode_stub(ctx):
    def imdecode(buf, flags):
        ctx.stub_used("cv2.imdecode(buf, IMREAD_UNCHANGED): returns the stored array (BGR channel order for colour)")
        import cv2
        assert flags == cv2.IMREAD_UNCHANGED, "decode flag must keep depth and channels unchanged"
        return ctx.decoded
    return imdecode


def _cvt_stub(ctx):
    def cvtColor(a, code):
        import cv2
        ctx.stub_used("cv2.cvtColor(a, COLOR_BGR2RGB): channel reversal")
        assert code == cv2.COLOR_BGR2RGB
        return np.asarray(a)[..., ::-1]
    return cvtColor


@ob("C18.bytes", cases=product_cases(form=("grey", "single-channel", "colour"), hw=((2, 3), (1, 3), (3, 1), (1, 1))), mods=MODS, funcs=FUNCS, samples=(0, 0),
    stubs={"cv2.imdecode": _decode_stub, "cv2.cvtColor": _cvt_stub},
    cite="decoding an encoded lossless byte string yields the original array with channels in RGB order and the matching image kind",
    note="imread_from_bytes with the decoder as an assumed contract (returns the stored array, BGR order, flags must be IMREAD_UNCHANGED)")
def c18_bytes(ctx, form, hw=(2, 3)):
    shape = {"grey": tuple(hw), "single-channel": (*hw, 1), "colour": (*hw, 3)}[form]
    stored = ctx.array("p", shape)
    ctx.decoded = stored
    img = darsia.imread_from_bytes(b"\x00\x01", dimensions=[1.0, 2.0])
    if form == "colour":
        ctx.ensure("colour: optical image with channels reversed to RGB", isinstance(img, darsia.OpticalImage) and same(img.img, stored[..., ::-1]))
    else:
        ctx.ensure("grey / single channel: scalar image of the 2-D array", isinstance(img, darsia.ScalarImage) and same(img.img, stored.reshape(*hw)))
    ctx.ensure("keyword metadata is passed on", eq(list(img.dimensions), [1.0, 2.0]))


def _attr_sets(cls):
    """(attributes read by correct_array, attributes established by __init__() / load), transitively through self.method() calls"""
    def walk(name, seen, reads, writes):
        if name in seen:
            return
        seen.add(name)
        fn = None
        for k in cls.__mro__:
            if name in vars(k) and k.__module__.startswith("darsia"):
                fn = vars(k)[name]
                break
        if fn is None or not inspect.isfunction(fn):
            return
        tree = ast.parse(textwrap.dedent(inspect.getsource(fn)))
        for node in ast.walk(tree):
            if isinstance(node, ast.Attribute) and isinstance(node.value, ast.Name) and node.value.id == "self":
                if isinstance(node.ctx, ast.Store):
                    writes.add(node.attr)
                else:
                    reads.add(node.attr)
            if isinstance(node, ast.Call) and isinstance(node.func, ast.Attribute) and isinstance(node.func.value, ast.Name) and node.func.value.id == "self":
                walk(node.func.attr, seen, reads, writes)
    r, w = set(), set()
    walk("correct_array", set(), r, set())
    s2 = set()
    walk("__init__", s2, set(), w)
    walk("load", s2, set(), w)
    methods = {n for k in cls.__mro__ for n, v in vars(k).items() if inspect.isfunction(v) or isinstance(v, (property, staticmethod, classmethod))}
    return r - methods, w


SAVEABLE = {"TypeCorrection": darsia.TypeCorrection, "DriftCorrection": darsia.DriftCorrection, "CurvatureCorrection": darsia.CurvatureCorrection,
            "IlluminationCorrection": darsia.IlluminationCorrection, "ColorCorrection": darsia.ColorCorrection}


@ob("C18.saved_keys", kind="T", cases=[dict(cls=k) for k in SAVEABLE], funcs=FUNCS, samples=(0, 0),
    cite="Every correction that supports saving reloads through the generic reader to a correction producing identical output",
    note="structural contract on the real source (AST): every attribute correct_array (transitively) reads is established by __init__() or load(), the only "
         "two things read_correction runs; and save() stores the class name the reader dispatches on")
def c18_saved_keys(ctx, cls):
    k = SAVEABLE[cls]
    reads, established = _attr_sets(k)
    missing = sorted(reads - established)
    ctx.ensure(f"attributes read by correct_array but established neither by __init__() nor by load(): {missing}", not missing)
    src = inspect.getsource(k.save)
    ctx.ensure("save() stores class_name=type(self).__name__", "class_name=type(self).__name__" in src.replace(" ", "").replace("\n", "").replace("class_name=type(self).__name__", "class_name=type(self).__name__"))
    import darsia.corrections.readcorrection as rc
    ctx.ensure("the generic reader can resolve the class name", getattr(rc, cls, None) is k)


# ---- bounded: real files ---------------------------------------------------------------------------------------------------------

@ob("C18.npz", kind="B", cases=product_cases(dtype=("bool", "uint8", "uint16", "float32", "float64"), dim=(1, 2, 3)), funcs=FUNCS, samples=(1, 3),
    cite="random images over the full metadata space (space_dim 1-3, series, scalar, dtype in {bool,uint8,uint16,float32,float64}, date/time variants, names, origins)",
    note="bounded: real npz files in a temporary directory")
def c18_npz(ctx, dtype, dim):
    rng = np.random.default_rng(ctx.rng.randrange(1 << 30))
    with tempfile.TemporaryDirectory() as tmp:
        for payload, times in itertools.product(("scalar", "vector", "series", "vector-series"), ("none", "date", "rel", "date+ref", "date+rel")):
            shape = [int(x) for x in rng.integers(1, 5, dim)]
            series = payload in ("series", "vector-series")
            full = shape + ([3] if series else []) + ([] if payload in ("scalar", "series") else [2])
            dt = np.dtype(dtype)
            arr = (rng.random(full) > 0.5) if dt.kind == "b" else (rng.random(full).astype(dt) if dt.kind == "f" else rng.integers(0, np.iinfo(dt).max, full).astype(dt))
            kw = dict(space_dim=dim, dimensions=[float(x) for x in rng.random(dim) + 0.1], origin=[float(x) for x in rng.normal(size=dim)], scalar=payload in ("scalar", "series"),
                      series=series, name=f"img-{payload}-{times}")
            if times in ("date", "date+ref", "date+rel"):
                kw["date"] = [T0 + timedelta(minutes=7 * k) for k in range(3)] if series else T0
                if times == "date+ref":
                    kw["reference_date"] = T0 - timedelta(hours=5)
            elif times == "rel":
                kw["time"] = [1.5 * k for k in range(3)] if series else 12.25
            if times == "date+rel":            # an experiment clock that is NOT date - reference date
                kw["time"] = [0.0, 30.0, 90.0] if series else 120.0
            with contextlib.redirect_stdout(io.StringIO()):
                img = darsia.Image(arr.copy(), **kw)
                p = Path(tmp) / f"{payload}-{times}.npz"
                img.save(p)
                back = darsia.imread(p)
                back2 = darsia.imread_from_npz(p)
                shared = Path(tmp) / "scratch.npz"          # one path overwritten by every image of this loop (history: earlier content of the path)
                img.save(shared)
                back3 = darsia.imread(shared)
            ctx.tick()
            tag = f"{dtype}/{dim}-D/{payload}/{times}"
            ctx.ensure(f"{tag}: pixel data and dtype identical", back.img.dtype == arr.dtype and back.img.shape == arr.shape and bool(np.array_equal(back.img, arr)) and bool(np.array_equal(back2.img, arr)))
            m1, m2 = img.metadata(), back.metadata()
            ok = set(m1) == set(m2)
            for k in m1:
                a, b = m1[k], m2.get(k)
                ok = ok and (bool(np.all(np.asarray(a) == np.asarray(b))) if k in ("dimensions", "origin") else a == b)
            ctx.ensure(f"{tag}: metadata identical", ok)
            ctx.ensure(f"{tag}: a path that held another image before reads back as the image saved last", back3.img.dtype == arr.dtype and back3.img.shape == arr.shape
                       and bool(np.array_equal(back3.img, arr)) and back3.name == img.name and back3.metadata()["date"] == m1["date"] and back3.metadata()["time"] == m1["time"])
            ctx.ensure(f"{tag}: saved image untouched", bool(np.array_equal(img.img, arr)))


@ob("C18.codec", kind="B", cases=product_cases(fmt=(".png", ".tiff"), depth=("uint8", "uint16"), form=("grey", "single-channel", "colour"), hw=((5, 7), (1, 7), (5, 1), (1, 1))), funcs=FUNCS, samples=(1, 2),
    cite="PNG/TIFF byte strings of 8/16-bit grey, single-channel and colour arrays ... writing an optical image to a lossless format and reading it returns the same colours",
    note="bounded: real codecs (fidelity of OpenCV's PNG / TIFF codecs is outside the reach of contracts)")
def c18_codec(ctx, fmt, depth, form, hw=(5, 7)):
    import cv2
    rng = np.random.default_rng(ctx.rng.randrange(1 << 30))
    dt = np.dtype(depth)
    shape = {"grey": tuple(hw), "single-channel": (*hw, 1), "colour": (*hw, 3)}[form]
    rgb = rng.integers(0, np.iinfo(dt).max, shape).astype(dt)
    bgr = rgb[..., ::-1] if form == "colour" else rgb
    ok, buf = cv2.imencode(fmt, bgr)
    ctx.ensure("encoder accepted the array", bool(ok))
    with contextlib.redirect_stdout(io.StringIO()):
        img = darsia.imread_from_bytes(buf.tobytes(), dimensions=[1.0, 2.0])
    want = rgb.reshape(*hw) if form != "colour" else rgb
    ctx.ensure("decoded array == original (RGB order), same dtype", img.img.dtype == dt and img.img.shape == want.shape and bool(np.array_equal(img.img, want)))
    ctx.ensure("matching image kind", isinstance(img, darsia.OpticalImage if form == "colour" else darsia.ScalarImage))
    if form == "colour" and depth == "uint16":
        # 16-bit colours survive the file: what imread returns is the stored value / 65535 (or the stored integers), never an 8-bit quantisation of it
        with tempfile.TemporaryDirectory() as tmp, contextlib.redirect_stdout(io.StringIO()):
            o = darsia.OpticalImage(rgb.copy(), dimensions=[1.0, 2.0], color_space="RGB")
            p = Path(tmp) / ("img" + (".png" if fmt == ".png" else ".tif"))
            o.write(p)
            back = darsia.imread(p, dimensions=[1.0, 2.0])
        b = np.asarray(back.img)
        same16 = bool(np.array_equal(b, rgb)) if b.dtype == np.uint16 else bool(np.allclose(b.astype(float), rgb / 65535.0, rtol=0, atol=0.6 / 65535.0))
        ctx.ensure("16-bit optical image written to a lossless file reads back with the same colours (to half a 16-bit level)", b.shape == rgb.shape and same16)
    if form == "colour" and depth == "uint8":
        with tempfile.TemporaryDirectory() as tmp, contextlib.redirect_stdout(io.StringIO()):
            o = darsia.OpticalImage(rgb.copy(), dimensions=[1.0, 2.0], color_space="RGB")
            p = Path(tmp) / ("img" + (".png" if fmt == ".png" else ".tif"))
            o.write(p)
            back = darsia.imread(p, dimensions=[1.0, 2.0])
        # imread returns optical images as floats in [0, 1]: the colours are the stored 8-bit values / 255
        as8 = np.asarray(back.img)
        as8 = as8 if as8.dtype == np.uint8 else np.rint(as8 * 255).astype(np.uint8)
        ctx.ensure("optical image written to a lossless file reads back with the same colours", back.img.shape == rgb.shape and bool(np.array_equal(as8, rgb))
                   and (back.img.dtype == np.uint8 or bool(np.allclose(back.img, rgb / 255.0, atol=1e-7))))


def _make(cls, rng, variant=None):
    H, W = 24, 30
    if cls == "TypeCorrection":
        return darsia.TypeCorrection([np.float32, np.uint8, np.float64][int(rng.integers(3))])
    if cls == "DriftCorrection":
        base = (255 * rng.random((H, W, 3))).astype(np.uint8)
        cfgs = [{"active": False}, {"roi": [[2, 3], [18, 25]], "padding": 0.1}, {"roi": (slice(3, 20), slice(2, 22))}, {}]
        return darsia.DriftCorrection(base, config=cfgs[int(rng.integers(len(cfgs))) if variant is None else variant % len(cfgs)])
    if cls == "CurvatureCorrection":
        v = float(rng.random()) * 1e-4
        cfg = [{"bulge": {"horizontal_bulge": v, "vertical_bulge": v / 2, "horizontal_stretch": v / 3, "vertical_stretch": 0.0, "horizontal_center_offset": 1, "vertical_center_offset": -2}},
               {"crop": {"pts_src": [[1, 2], [20, 2], [20, 25], [1, 25]], "width": 0.9, "height": 0.5}},
               # corner points as TYPED voxels (row, col) - what CurvatureCorrection.crop() / the crop assistant produce; plain lists are read as (col, row)
               {"crop": {"pts_src": darsia.make_voxel([[2, 1], [2, 20], [22, 20], [22, 1]]), "width": 0.9, "height": 0.5}}][int(rng.integers(3)) if variant is None else variant % 3]
        return darsia.CurvatureCorrection(config=cfg)
    if cls == "IlluminationCorrection":
        ic = darsia.IlluminationCorrection()
        ic.colorspace = ["rgb", "hsl-scalar"][int(rng.integers(2))]
        ic.local_scaling = [darsia.ScalarImage(0.5 + rng.random((H, W)), dimensions=[1.0, 1.0]) for _ in range(3 if ic.colorspace == "rgb" else 1)]
        return ic
    raise ValueError


@ob("C18.corrections", kind="B", cases=[dict(cls=k, variant=v) for k in ("TypeCorrection", "DriftCorrection", "CurvatureCorrection", "IlluminationCorrection") for v in range(4 if k == "DriftCorrection" else 3 if k == "CurvatureCorrection" else 2)],
    funcs=FUNCS, samples=(1, 3), tol=1e-12,
    cite="type, drift, curvature, illumination and colour corrections with random configurations ... reloads through the generic reader to a correction producing identical output",
    note="bounded: real npz files; ColorCorrection needs a colour-checker photograph and is covered by the structural obligation C18.saved_keys only")
def c18_corrections(ctx, cls, variant):
    rng = np.random.default_rng(ctx.rng.randrange(1 << 30))
    with tempfile.TemporaryDirectory() as tmp, contextlib.redirect_stdout(io.StringIO()):
        p = Path(tmp) / "corr.npz"
        _make(cls, rng, (variant + 1)).save(p)          # the path held another correction of the class before (history)
        darsia.read_correction(p)
        corr = _make(cls, rng, variant)
        corr.save(p)
        back = darsia.read_correction(p)
        ctx.ensure("generic reader returns the same correction class", type(back) is type(corr))
        img = rng.random((24, 30, 3)) if cls != "DriftCorrection" else (255 * rng.random((24, 30, 3))).astype(np.uint8)
        if cls == "DriftCorrection":
            ctx.ensure("drift: base image, roi, padding and active flag reloaded", bool(np.array_equal(back.base, corr.base)) and back.roi == corr.roi
                       and back.relative_padding == corr.relative_padding and back.active == corr.active)
            # same output on a shifted copy of the base (features of the base are present)
            shifted = np.roll(corr.base, (1, 2), axis=(0, 1))
            try:
                a = corr.correct_array(shifted.copy())
                b = back.correct_array(shifted.copy())
                ctx.ensure("drift: identical output", a.shape == b.shape and bool(np.array_equal(a, b)))
            except Exception:          # noqa: BLE001 - feature matching may fail on noise for BOTH objects alike
                both = 0
                for c in (corr, back):
                    try:
                        c.correct_array(shifted.copy())
                    except Exception:  # noqa: BLE001
                        both += 1
                ctx.ensure("drift: original and reloaded correction fail alike on featureless input", both in (0, 2))
        else:
            a = corr.correct_array(img.copy())
            b = back.correct_array(img.copy())
            ctx.ensure("identical output on a random image", a.shape == b.shape and a.dtype == b.dtype and bool(np.array_equal(a, b)))
            m1, m2 = corr.correct_metadata({"dimensions": [1.0, 1.0]}), back.correct_metadata({"dimensions": [1.0, 1.0]})
            ctx.ensure("identical declared metadata updates", m1.keys() == m2.keys() and all(np.all(np.asarray(m1[k]) == np.asarray(m2[k])) for k in m1))


@ob("C18.corrections_state", kind="B", cases=[dict(cls="DriftCorrection", change=c) for c in ("deactivate", "activate", "roi", "padding", "caller-config", "none")]
    + [dict(cls="CurvatureCorrection", change=c) for c in ("caller-config", "none")] + [dict(cls="TypeCorrection", change="data_type")],
    funcs=FUNCS, samples=(1, 2), tol=1e-12,
    cite="Every correction that supports saving reloads through the generic reader to a correction producing identical output",
    note="bounded: the file must describe the correction AS IT IS WHEN SAVED - state changed through its public attributes after construction, or a caller-owned config dictionary "
         "edited after construction, must not make the reloaded object differ from the saved one (after seed C18_e: save() wrote the construction-time dictionary)")
def c18_corrections_state(ctx, cls, change):
    rng = np.random.default_rng(ctx.rng.randrange(1 << 30))
    H, W = 24, 30
    with tempfile.TemporaryDirectory() as tmp, contextlib.redirect_stdout(io.StringIO()):
        p = Path(tmp) / "corr.npz"
        if cls == "DriftCorrection":
            base = (255 * rng.random((H, W, 3))).astype(np.uint8)
            cfg = {"active": change != "activate", "roi": [[2, 3], [18, 25]], "padding": 0.1}
            corr = darsia.DriftCorrection(base, config=cfg)
            state0 = (corr.active, corr.roi, corr.relative_padding)
            if change == "deactivate":
                corr.active = False
            elif change == "activate":
                corr.active = True
            elif change == "roi":
                corr.roi = (slice(3, 20), slice(2, 22))
            elif change == "padding":
                corr.relative_padding = 0.25
            elif change == "caller-config":
                cfg["active"] = False
                cfg["roi"] = [[0, 0], [5, 5]]
                cfg["padding"] = 0.3
                ctx.ensure("editing the caller's config dictionary after construction does not change the correction", (corr.active, corr.roi, corr.relative_padding) == state0)
            corr.save(p)
            back = darsia.read_correction(p)
            ctx.ensure("reloaded drift correction has the state the object had when it was saved",
                       type(back) is type(corr) and back.active == corr.active and back.roi == corr.roi and back.relative_padding == corr.relative_padding
                       and bool(np.array_equal(back.base, corr.base)))
            x = np.roll(base, (1, 2), axis=(0, 1))
            if not corr.active:
                ctx.ensure("inactive when saved => the reloaded correction is the identity, too", bool(np.array_equal(back.correct_array(x.copy()), x)) and bool(np.array_equal(corr.correct_array(x.copy()), x)))
        elif cls == "CurvatureCorrection":
            v = 5e-5
            cfg = {"bulge": {"horizontal_bulge": v, "vertical_bulge": v / 2, "horizontal_stretch": v / 3, "vertical_stretch": 0.0, "horizontal_center_offset": 1, "vertical_center_offset": -2}}
            corr = darsia.CurvatureCorrection(config=cfg)
            img = rng.random((H, W, 3))
            before = corr.correct_array(img.copy())
            if change == "caller-config":
                cfg["bulge"]["horizontal_bulge"] = 10 * v
                cfg["crop"] = {"pts_src": [[1, 2], [20, 2], [20, 25], [1, 25]], "width": 0.9, "height": 0.5}
                ctx.ensure("editing the caller's config dictionary after construction does not change the correction", bool(np.array_equal(corr.correct_array(img.copy()), before)))
            corr.save(p)
            back = darsia.read_correction(p)
            ctx.ensure("reloaded curvature correction produces the output of the saved object", bool(np.array_equal(back.correct_array(img.copy()), corr.correct_array(img.copy()))))
        else:
            corr = darsia.TypeCorrection(np.float32)
            corr.data_type = np.uint8
            corr.save(p)
            back = darsia.read_correction(p)
            img = rng.random((H, W, 3))
            a, b = corr.correct_array(img.copy()), back.correct_array(img.copy())
            ctx.ensure("reloaded type correction converts like the saved object (data_type changed after construction)", a.dtype == b.dtype and bool(np.array_equal(a, b)))


def _checker_photo(rng, gain=0.55):
    """synthetic photograph: the classic colour checker (tiles of its reference colours, under-exposed by `gain`) on a bright gradient background"""
    ref = darsia.ColorCheckerAfter2014().swatches_rgb
    tile = 40
    checker = np.kron(np.clip(gain * ref + 0.02, 0, 1), np.ones((tile, tile, 1), dtype=np.float32))
    rows, cols = checker.shape[:2]
    ny, nx = rows + 60, cols + 80
    yy, xx = np.meshgrid(np.linspace(0, 1, ny), np.linspace(0, 1, nx), indexing="ij")
    img = np.stack([0.35 + 0.6 * xx, 0.95 - 0.9 * yy, 0.05 + 0.9 * xx * yy], axis=-1)
    r0, c0 = 30, 40
    img[r0:r0 + rows, c0:c0 + cols] = checker
    roi = [[r0, c0], [r0 + rows, c0], [r0 + rows, c0 + cols], [r0, c0 + cols]]
    return (255 * np.clip(img, 0, 1)).astype(np.uint8), roi


@ob("C18.color_correction", kind="B", cases=product_cases(clip=(False, True), whitebalancing=(True, False), colorbalancing=("affine", "linear"), active=(True,)) + [dict(clip=True, whitebalancing=True, colorbalancing="affine", active=False)],
    funcs=FUNCS, samples=(1, 1), tol=1e-3,
    cite="Every correction that supports saving reloads through the generic reader to a correction producing identical output",
    note="bounded: ColorCorrection on a synthetic colour-checker photograph, every configuration switch (clip, white balancing, colour balancing mode, active) in both positions: the "
         "reloaded object has the configuration of the saved one (every scalar attribute) and produces its output (tolerance 1e-3: swatch detection uses cv2.kmeans with random "
         "initial centres); brighter-than-white background so that clipping matters (after seed C18_h: save() kept a whitelist of config keys)")
def c18_color_correction(ctx, clip, whitebalancing, colorbalancing, active):
    import enum
    rng = np.random.default_rng(ctx.rng.randrange(1 << 30))
    img, roi = _checker_photo(rng)
    cfg = {"roi": roi, "whitebalancing": whitebalancing, "colorbalancing": colorbalancing, "balancing": "darsia", "clip": clip, "active": active}
    with tempfile.TemporaryDirectory() as tmp, contextlib.redirect_stdout(io.StringIO()):
        corr = darsia.ColorCorrection(config=dict(cfg))
        want = corr.correct_array(img.copy())
        p = Path(tmp) / "cc.npz"
        corr.save(p)
        back = darsia.read_correction(p)
        got = back.correct_array(img.copy())
    scal = lambda o: {k: v for k, v in vars(o).items() if isinstance(v, (bool, int, float, str, type(None), enum.Enum))}
    ctx.ensure("generic reader returns a ColorCorrection", type(back) is type(corr))
    ctx.ensure(f"reloaded correction has the scalar configuration of the saved one: {scal(corr)} vs {scal(back)}", scal(corr) == scal(back))
    ctx.ensure("every configuration entry of the saved object is present in the reloaded one", all(k in back.config and (np.all(np.asarray(back.config[k]) == np.asarray(v))) for k, v in corr.config.items()))
    ctx.ensure("identical output (to swatch-detection noise)", got.shape == want.shape and got.dtype == want.dtype and float(np.max(np.abs(got.astype(float) - want.astype(float)))) <= 1e-3)
    if clip and active:
        ctx.ensure("clip=True: output confined to [0, 1] before and after reload", float(want.max()) <= 1.0 and float(got.max()) <= 1.0 and float(want.min()) >= 0.0 and float(got.min()) >= 0.0)


@ob("C18.dep_cv2", kind="B", samples=(2, 6), funcs=[], tol=0.0, cite="(validation of assumed dependency contracts)",
    note="cv2.imdecode(IMREAD_UNCHANGED) returns what imencode stored (uint8 / uint16, grey / colour, channel order as stored); cv2.cvtColor(BGR2RGB) is the channel reversal")
def c18_dep_cv2(ctx):
    from contracts import deps_validation as dv
    dv.dep_cv2_io(ctx, _cvt_stub)
