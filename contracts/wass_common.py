"""Shared helpers for the Wasserstein contracts (C04, C05, C08): grids, equal-mass pairs, discrete specification pieces."""
import itertools
import warnings

import numpy as np
import scipy.sparse as sps

import darsia
from darsia.measure.wasserstein import L1Mode, MobilityMode

L1_MODES = [L1Mode.RAVIART_THOMAS, L1Mode.CONSTANT_SUBCELL_PROJECTION, L1Mode.CONSTANT_CELL_PROJECTION]
MOBILITY = [MobilityMode.CELL_BASED, MobilityMode.CELL_BASED_ARITHMETIC, MobilityMode.CELL_BASED_HARMONIC, MobilityMode.SUBCELL_BASED,
            MobilityMode.FACE_BASED]
FORMULATIONS = ["full", "flux_reduced", "pressure"]
BACKENDS = {"full": ["direct"], "flux_reduced": ["direct", "amg", "cg"], "pressure": ["direct", "amg", "cg"]}


def grid_of(shape, rng=None, iso=False, scale=1.0):
    h = [1.0] * len(shape) if iso else [0.5, 0.25, 2.0][: len(shape)]
    h = [scale * x for x in h]
    return darsia.Grid(tuple(shape), list(h)), h


def images(shape, h, rng, kind="dense"):
    """equal-mass pair of scalar images on the grid"""
    n = int(np.prod(shape))
    if kind == "dense":
        a, b = rng.random(shape) + 0.1, rng.random(shape) + 0.1
    elif kind == "sparse":
        a, b = np.zeros(shape), np.zeros(shape)
        for arr in (a, b):
            idx = rng.choice(n, size=max(1, n // 4), replace=False)
            arr.flat[idx] = rng.random(len(idx)) + 0.1
    else:  # single cell
        a, b = np.zeros(shape), np.zeros(shape)
        a.flat[int(rng.integers(n))] = 1.0
        b.flat[int(rng.integers(n))] = 1.0
    b *= a.sum() / b.sum()
    dims = [shape[k] * h[k] for k in range(len(shape))]
    mk = lambda arr: darsia.Image(arr, space_dim=len(shape), scalar=True, dimensions=list(dims))
    return mk(a), mk(b)


def solver(method, grid, options, weight=None):
    cls = {"newton": darsia.WassersteinDistanceNewton, "bregman": darsia.WassersteinDistanceBregman}[method]
    with warnings.catch_warnings():
        warnings.simplefilter("ignore")
        return cls(grid, weight, dict(options))


def base_options(**kw):
    o = dict(num_iter=40, tol_residual=1e-9, tol_increment=1e-7, tol_distance=1e-9, L=1.0, return_info=True, verbose=False,
             linear_solver="direct", formulation="pressure", linear_solver_options={"rtol": 1e-11, "atol": 1e-13, "maxiter": 400},
             amg_options={"strength": "symmetric"})
    o.update(kw)
    return o


def mass_rhs(w, img1, img2):
    diff = np.ravel(img2.img - img1.img, "F")
    return w.mass_matrix_cells.dot(diff)


def balance_residual(w, flat_flux, img1, img2):
    return float(np.linalg.norm(w.div.dot(flat_flux) - mass_rhs(w, img1, img2)))


def cycles_basis(w):
    """null space of div (dense, small grids)"""
    import scipy.linalg
    D = w.div.toarray()
    return scipy.linalg.null_space(D)


def particular_flux(w, b):
    D = w.div.toarray()
    u, *_ = np.linalg.lstsq(D, b, rcond=None)
    return u
