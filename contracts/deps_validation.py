"""Bounded validation of the ASSUMED contracts of external dependencies (rewrite R3 stubs, vf/stubs.py and the per-property stubs)
against the installed libraries.  Each function drives the stub's MODEL path (inputs are exact rational Sym constants, so the stub cannot
fall back to the real library) and the real dependency on the same random dyadic inputs, and compares.  Registered per property as
`Cxx.dep_*` obligations of kind B: they are evidence that an assumed contract describes the installed dependency on the sampled
domain - never counted as proved, and the contract itself stays listed under assumptions."""
from __future__ import annotations

from fractions import Fraction

import numpy as np

from vf import stubs
from vf.sym import PathCtx, Sym, lift

# stub name prefix -> obligation that validates it (the runner appends this to the A5 assumption text)
VALIDATED_BY = {
    "cv2.resize": "C03.dep_resize / C11.dep_cv2", "scipy.stats.hmean": "C06.dep_scipy / C04.dep_numeric", "scipy.sparse.csc_matrix((data": "C06.dep_scipy",
    "scipy.sparse.diags": "C06.dep_scipy", "scipy Rotation": "C09.dep_scipy", "scipy.optimize.minimize": "C09.dep_scipy / C12.dep_minimize",
    "cv2.merge": "C11.dep_cv2", "cv2.split": "C11.dep_cv2", "skimage": "C13.dep_skimage", "cv2.cvtColor": "C18.dep_cv2", "cv2.imdecode": "C18.dep_cv2",
    "scipy.linalg.lstsq": "C04.dep_numeric / C16.dep_numeric", "scipy.sparse.linalg.splu": "C08.dep_splu / C04.dep_numeric", "scipy.sparse csc": "C08.dep_sparse",
    "cv2.EMD": "C05.dep_emd",
}


class _Ctx:
    """what a stub factory needs from a context; forces the model path"""
    sym = True
    values = None

    def __init__(self, ctx):
        self._ctx = ctx

    def stub_used(self, name):
        pass

    def real(self, name, **k):
        raise AssertionError("validation drives stubs with constants only")


def dyadic(rng, shape, lo=0.0, hi=1.0, bits=8):
    return lo + np.round(rng.random(shape) * (1 << bits)) / (1 << bits) * (hi - lo)


def to_sym(a):
    a = np.asarray(a, dtype=float)
    import z3
    o = np.empty(a.shape, dtype=object)
    o.flat = [Sym(z3.RealVal(str(Fraction(float(v))))) for v in a.flat]
    return o


def to_float(o, subst=None):
    import z3

    def f(e):
        if isinstance(e, Sym):
            t = lift(e)
            if subst:
                t = z3.substitute(t, *subst)
            t = z3.simplify(t)
            return float(Fraction(t.as_fraction())) if z3.is_rational_value(t) else float(t.approx(30).as_fraction())
        return float(e)
    o = np.asarray(o, dtype=object)
    return np.array([f(e) for e in o.flat], dtype=float).reshape(o.shape)


def rng_of(ctx):
    return np.random.default_rng(ctx.rng.randrange(1 << 30))


# ------------------------------------------------------------------------------------------------------------------- cv2.resize (INTER_AREA)
def dep_resize(ctx):
    import cv2
    rng = rng_of(ctx)
    model = stubs.cv2_resize_area_stub(_Ctx(ctx))
    full = stubs.cv2_resize_full_stub(_Ctx(ctx))
    bad = []
    for _ in range(40 if ctx.tier == "quick" else 200):
        h, w = int(rng.integers(1, 7)), int(rng.integers(1, 7))
        ky, kx = int(rng.integers(1, 5)), int(rng.integers(1, 5))
        up_y = bool(rng.integers(0, 2))
        up_x = up_y if (ky > 1 and kx > 1) else bool(rng.integers(0, 2))       # the contract's domain: no axis shrinks while the other grows
        src_shape = (h if up_y else h * ky, w if up_x else w * kx)
        dst = (h * ky if up_y else h, w * kx if up_x else w)
        ch = int(rng.choice([0, 1, 2, 3]))
        a = dyadic(rng, src_shape + ((ch,) if ch else ()))
        real = cv2.resize(a, (dst[1], dst[0]), interpolation=cv2.INTER_AREA)
        got = to_float(model(to_sym(a), (dst[1], dst[0]), interpolation=cv2.INTER_AREA))
        ctx.tick()
        if real.shape != got.shape or not np.allclose(real, got, rtol=0, atol=2e-7):
            bad.append((src_shape, dst, ch))
        # the fx / fy form used by darsia.Resize
        if not (up_y or up_x) or (up_y and up_x):
            fy, fx = dst[0] / src_shape[0], dst[1] / src_shape[1]
            real2 = cv2.resize(a, None, fx=fx, fy=fy, interpolation=cv2.INTER_AREA)
            got2 = to_float(full(to_sym(a), dsize=None, fx=fx, fy=fy, interpolation=cv2.INTER_AREA))
            if real2.shape != got2.shape or not np.allclose(real2, got2, rtol=0, atol=2e-7):
                bad.append((src_shape, (fy, fx), ch, "fx/fy"))
    # outside that domain the stub must refuse (OpenCV interpolates linearly there: found by this validation, see DESIGN 8.10)
    from vf.sym import Unsupported
    refused = False
    try:
        model(to_sym(dyadic(rng, (6, 2))), (4, 2), interpolation=cv2.INTER_AREA)
    except Unsupported:
        refused = True
    a = dyadic(rng, (6, 2))
    lin = cv2.resize(a, (4, 2), interpolation=cv2.INTER_AREA)
    blk = np.repeat(a.reshape(2, 3, 2).mean(axis=1), 2, axis=1)
    ctx.ensure("the stub refuses a resize that shrinks one axis and enlarges the other (where OpenCV's result is NOT block mean + repetition)", refused and not np.allclose(lin, blk, atol=1e-6))
    ctx.ensure(f"cv2.resize(INTER_AREA), integer ratios: block mean when shrinking, repetition when enlarging, per axis (float64, 1-3 channels; OpenCV's area weights are single precision: agreement to 2e-7); deviations: {bad[:4]}", not bad)


# ------------------------------------------------------------------------------------------------------------------- scipy.stats.hmean
def dep_hmean(ctx):
    from scipy.stats import hmean
    rng = rng_of(ctx)
    model = stubs.hmean_stub(_Ctx(ctx))
    ok = True
    for _ in range(20):
        a = dyadic(rng, (int(rng.integers(1, 6)), int(rng.integers(1, 4))), 0.125, 4.0)
        for axis in (0, 1):
            ok = ok and bool(np.allclose(hmean(a, axis=axis), to_float(model(to_sym(a), axis=axis)), rtol=1e-13))
            ctx.tick()
    ctx.ensure("scipy.stats.hmean(a, axis) == n / sum(1 / a_i) for positive input", ok)


# ------------------------------------------------------------------------------------------------------------------- scipy.sparse coordinate constructor, diags
def dep_coo(ctx):
    import scipy.sparse as sps
    rng = rng_of(ctx)
    mk = stubs.csc_matrix_stub(_Ctx(ctx))
    dg = stubs.diags_stub(_Ctx(ctx))
    ok_c = ok_d = ok_ops = True
    for _ in range(20):
        m, n = int(rng.integers(1, 6)), int(rng.integers(1, 6))
        nnz = int(rng.integers(0, 2 * m * n))
        row, col = rng.integers(0, m, nnz), rng.integers(0, n, nnz)            # duplicates on purpose
        data = dyadic(rng, nnz, -2.0, 2.0)
        real = sps.csc_matrix((data, (row, col)), shape=(m, n))
        mod = mk((to_sym(data), (row, col)), shape=(m, n))
        ok_c = ok_c and bool(np.allclose(real.toarray(), to_float(mod.toarray()), atol=1e-14))
        v = dyadic(rng, n, -2.0, 2.0)
        ok_d = ok_d and bool(np.array_equal(sps.diags(v).toarray(), to_float(dg(to_sym(v)).toarray())))
        x = dyadic(rng, n, -1.0, 1.0)
        ok_ops = ok_ops and bool(np.allclose(real.dot(x), to_float(mod.dot(to_sym(x))), atol=1e-13)) and bool(np.allclose(real.T.toarray(), to_float(mod.T.toarray()), atol=1e-14)) \
            and bool(np.allclose((real + real).toarray(), to_float((mod + mod).toarray()), atol=1e-13)) and bool(np.allclose(real.diagonal(), to_float(mod.diagonal()), atol=1e-14)) \
            and bool(np.allclose((real @ sps.diags(v)).toarray(), to_float((mod @ dg(to_sym(v))).toarray()), atol=1e-13))
        ctx.tick()
    ctx.ensure("scipy.sparse.csc_matrix((data, (row, col)), shape): coordinate semantics, duplicate entries summed", ok_c)
    ctx.ensure("scipy.sparse.diags(v): the diagonal matrix of v", ok_d)
    ctx.ensure("value semantics of dot / .T / + / diagonal / @ on those matrices", ok_ops)


# ------------------------------------------------------------------------------------------------------------------- scipy Rotation.from_rotvec
def dep_rotation(ctx):
    import z3
    from scipy.spatial.transform import Rotation
    rng = rng_of(ctx)

    class _P:            # minimal path context: collects the constraints the stub adds
        def __init__(self):
            self.cs = []

        def add(self, c):
            self.cs.append(c)
    ok = ok_neg = ok_con = True
    for _ in range(12):
        saved = PathCtx.cur
        P = _P()
        PathCtx.cur = P
        try:
            R = stubs.rotation_stub(_Ctx(ctx))
            t = z3.Real("theta")
            k = int(rng.integers(0, 3))
            theta = float(rng.uniform(-3.0, 3.0))
            e = [0, 0, 0]
            e[k] = Sym(t)
            pos = R.from_rotvec(np.array(e, dtype=object)).as_matrix()
            e[k] = Sym(-t)
            neg = R.from_rotvec(np.array(e, dtype=object)).as_matrix()
        finally:
            PathCtx.cur = saved
        c, s = z3.Real("__cos0"), z3.Real("__sin0")
        sub = [(c, z3.RealVal(str(Fraction(float(np.cos(theta)))))), (s, z3.RealVal(str(Fraction(float(np.sin(theta))))))]
        want = Rotation.from_rotvec(theta * np.eye(3)[k]).as_matrix()
        want_neg = Rotation.from_rotvec(-theta * np.eye(3)[k]).as_matrix()
        ok = ok and bool(np.allclose(to_float(pos, sub), want, atol=1e-12))
        ok_neg = ok_neg and bool(np.allclose(to_float(neg, sub), want_neg, atol=1e-12))
        # the only constraint the stub imposes is c^2 + s^2 == 1: true of (cos, sin)
        ok_con = ok_con and len(P.cs) == 1 and abs(np.cos(theta) ** 2 + np.sin(theta) ** 2 - 1) < 1e-15
        ctx.tick()
    ctx.ensure("Rotation.from_rotvec(theta e_k).as_matrix() is the right-handed rotation about axis k with (c, s) = (cos theta, sin theta)", ok)
    ctx.ensure("from_rotvec(-theta e_k) is the same matrix with (c, -s)", ok_neg)
    ctx.ensure("the stub constrains (c, s) by c^2 + s^2 = 1 only", ok_con)


# ------------------------------------------------------------------------------------------------------------------- scipy.optimize.minimize (Powell)
def dep_minimize(ctx):
    import scipy.optimize as so
    rng = rng_of(ctx)
    ok_len = ok_mono = True
    for _ in range(12):
        n = int(rng.integers(1, 5))
        A = rng.standard_normal((n + 2, n))
        b = rng.standard_normal(n + 2)
        kind = int(rng.integers(0, 3))
        f = [lambda x: float(np.sum((A @ x - b) ** 2)), lambda x: float(np.sum(np.abs(A @ x - b))), lambda x: float(np.sum((A @ x - b) ** 2) + np.sin(3 * x[0]))][kind]
        x0 = rng.standard_normal(n)
        r = so.minimize(f, x0, method="Powell", tol=1e-6, options={"maxiter": 200})
        ok_len = ok_len and np.shape(r.x) == (n,)
        ok_mono = ok_mono and f(r.x) <= f(x0) + 1e-12
        ctx.tick()
    ctx.ensure("minimize(f, x0, method='Powell').x has the length of x0", ok_len)
    ctx.ensure("Powell never returns a point worse than the start: f(x) <= f(x0)", ok_mono)


# ------------------------------------------------------------------------------------------------------------------- cv2.split / cv2.merge
def dep_split_merge(ctx):
    import cv2
    rng = rng_of(ctx)
    sp, mg = stubs.cv2_split_stub(_Ctx(ctx)), stubs.cv2_merge_stub(_Ctx(ctx))
    ok_s = ok_m = True
    for _ in range(20):
        h, w, c = int(rng.integers(1, 5)), int(rng.integers(1, 5)), int(rng.integers(1, 5))
        for dt in (np.float32, np.float64):
            a = dyadic(rng, (h, w, c)).astype(dt)
            real = cv2.split(a)
            mod = sp(a)
            ok_s = ok_s and len(real) == len(mod) and all(np.array_equal(p, q) for p, q in zip(real, mod))
            a2 = dyadic(rng, (h, w)).astype(dt)
            ok_s = ok_s and len(cv2.split(a2)) == len(sp(a2)) == 1 and np.array_equal(cv2.split(a2)[0], sp(a2)[0])
            chs = [np.ascontiguousarray(a[..., i]) for i in range(c)]
            rm, mm = cv2.merge(chs), mg(chs)
            ok_m = ok_m and rm.shape == mm.shape and bool(np.array_equal(rm, mm))
            ctx.tick()
    ctx.ensure("cv2.split(m) == tuple of m[..., c] (a 2-D array gives one channel)", ok_s)
    ctx.ensure("cv2.merge(channels) == stack along the last axis (a single channel stays 2-D)", ok_m)


# ------------------------------------------------------------------------------------------------------------------- skimage
def dep_skimage(ctx, absdiff, ident):
    import skimage
    import skimage.util
    rng = rng_of(ctx)
    ok_d = ok_i = True
    for _ in range(20):
        shp = (int(rng.integers(1, 5)), int(rng.integers(1, 5))) + ((3,) if rng.integers(0, 2) else ())
        for dt in (np.float32, np.float64):
            a, b = dyadic(rng, shp, -1.0, 1.0).astype(dt), dyadic(rng, shp, -1.0, 1.0).astype(dt)
            ok_d = ok_d and bool(np.allclose(skimage.util.compare_images(a, b, method="diff"), to_float(absdiff(_Ctx(ctx))(to_sym(a), to_sym(b), method="diff")), atol=1e-7))
            f = skimage.img_as_float(a)
            ok_i = ok_i and bool(np.array_equal(f, a)) and ident(_Ctx(ctx))(a) is a
            ctx.tick()
    ctx.ensure("skimage.util.compare_images(a, b, method='diff') == |a - b| on float images", ok_d)
    ctx.ensure("skimage.img_as_float leaves the values of a float image unchanged", ok_i)


# ------------------------------------------------------------------------------------------------------------------- cv2 codecs / colour order
def dep_cv2_io(ctx, cvt_stub):
    import cv2
    rng = rng_of(ctx)
    ok_rt = ok_cvt = True
    for _ in range(16):
        h, w = int(rng.integers(1, 6)), int(rng.integers(1, 6))
        for dt, top in ((np.uint8, 256), (np.uint16, 65536)):
            for ch in (0, 3):
                a = rng.integers(0, top, (h, w) + ((ch,) if ch else ())).astype(dt)
                okenc, buf = cv2.imencode(".png", a)
                back = cv2.imdecode(buf, cv2.IMREAD_UNCHANGED)
                ok_rt = ok_rt and okenc and back.dtype == a.dtype and back.shape == a.shape and bool(np.array_equal(back, a))      # what was stored comes back, channel order untouched
                ctx.tick()
        for dt in (np.uint8, np.uint16, np.float32):
            c = (rng.random((h, w, 3)) * 200).astype(dt)
            ok_cvt = ok_cvt and bool(np.array_equal(cv2.cvtColor(c, cv2.COLOR_BGR2RGB), cvt_stub(_Ctx(ctx))(c, cv2.COLOR_BGR2RGB)))
    ctx.ensure("cv2.imdecode(cv2.imencode('.png', a), IMREAD_UNCHANGED) returns the stored array (dtype, shape, channel order as stored)", ok_rt)
    ctx.ensure("cv2.cvtColor(a, COLOR_BGR2RGB) == a[..., ::-1]", ok_cvt)


# ------------------------------------------------------------------------------------------------------------------- scipy.linalg.lstsq / splu
def dep_lstsq(ctx):
    import scipy.linalg
    rng = rng_of(ctx)
    ok_shape = ok_fun = True
    for _ in range(20):
        m, n = int(rng.integers(1, 8)), int(rng.integers(1, 5))
        A, b = rng.standard_normal((m, n)), rng.standard_normal(m)
        if rng.integers(0, 3) == 0 and n > 1:
            A[:, -1] = A[:, 0]                       # rank deficient: still SOME vector, and the same one each time
        x1, x2 = scipy.linalg.lstsq(A, b)[0], scipy.linalg.lstsq(A.copy(), b.copy())[0]
        ok_shape = ok_shape and x1.shape == (n,)
        ok_fun = ok_fun and bool(np.array_equal(x1, x2))
        ctx.tick()
    ctx.ensure("scipy.linalg.lstsq(A, b)[0] is a vector of length A.shape[1]", ok_shape)
    ctx.ensure("... and a function of (A, b): equal arguments give the identical result", ok_fun)


def dep_splu(ctx):
    import scipy.sparse as sps
    rng = rng_of(ctx)
    ok_solve = ok_reuse = ok_fun = True
    for _ in range(20):
        n = int(rng.integers(1, 12))
        M = rng.standard_normal((n, n)) * (rng.random((n, n)) < 0.5) + np.diag(rng.uniform(2.0, 4.0, n) * n)
        b1, b2 = rng.standard_normal(n), rng.standard_normal(n)
        lu = sps.linalg.splu(sps.csc_matrix(M))
        x1, x2 = lu.solve(b1), lu.solve(b2)
        ok_solve = ok_solve and bool(np.linalg.norm(M @ x1 - b1) <= 1e-11 * max(1.0, np.linalg.norm(b1)))
        ok_reuse = ok_reuse and bool(np.linalg.norm(M @ x2 - b2) <= 1e-11 * max(1.0, np.linalg.norm(b2)))
        ok_fun = ok_fun and bool(np.array_equal(sps.linalg.splu(sps.csc_matrix(M)).solve(b1), x1))
        ctx.tick()
    ctx.ensure("splu(M).solve(b) returns x with M x = b (to 1e-11 relative, well-conditioned M)", ok_solve)
    ctx.ensure("one factorisation serves successive right-hand sides", ok_reuse)
    ctx.ensure("a function of (M, b): the same system gives the identical solution", ok_fun)


# ------------------------------------------------------------------------------------------------------------------- cv2.EMD
def dep_emd(ctx):
    import cv2
    rng = rng_of(ctx)
    ok_single = ok_work = ok_marg = True
    for _ in range(12):
        # two single-point signatures: the value is the Euclidean distance of the positions (weights normalised away)
        p, q = rng.uniform(0, 3, 2), rng.uniform(0, 3, 2)
        s1 = np.array([[0.7, *p]], dtype=np.float32)
        s2 = np.array([[0.7, *q]], dtype=np.float32)
        v, _, _ = cv2.EMD(s1, s2, cv2.DIST_L2)
        ok_single = ok_single and abs(v - float(np.linalg.norm(p.astype(np.float32) - q.astype(np.float32)))) <= 1e-5
        # general signatures of equal total weight: value == sum(flow * distance) / sum(flow), flow has the signatures' weights as marginals
        n, m = int(rng.integers(1, 5)), int(rng.integers(1, 5))
        w1, w2 = rng.uniform(0.1, 1.0, n), rng.uniform(0.1, 1.0, m)
        w1, w2 = w1 / w1.sum(), w2 / w2.sum()
        P, Q = rng.uniform(0, 3, (n, 2)), rng.uniform(0, 3, (m, 2))
        s1 = np.hstack([w1[:, None], P]).astype(np.float32)
        s2 = np.hstack([w2[:, None], Q]).astype(np.float32)
        v, _, flow = cv2.EMD(s1, s2, cv2.DIST_L2)
        D = np.linalg.norm(s1[:, None, 1:] - s2[None, :, 1:], axis=2)
        ok_work = ok_work and abs(v - float((flow * D).sum() / flow.sum())) <= 1e-4
        ok_marg = ok_marg and bool(np.allclose(flow.sum(axis=1), s1[:, 0], atol=1e-5)) and bool(np.allclose(flow.sum(axis=0), s2[:, 0], atol=1e-5))
        ctx.tick()
    ctx.ensure("cv2.EMD of two single-point signatures == Euclidean distance of the points", ok_single)
    ctx.ensure("cv2.EMD(sig1, sig2, DIST_L2)[0] == sum(flow * distance) / sum(flow)", ok_work)
    ctx.ensure("the flow's marginals are the signatures' weights", ok_marg)
