"""C07 — grid numbering and connectivity form a consistent bijection (darsia.Grid, generate_grid)."""
import itertools

import numpy as np

import darsia
from vf import frame
from vf.core import and_, eq, ob

FUNCS = ["darsia.utils.grid:Grid.__init__", "darsia.utils.grid:Grid._setup", "darsia.utils.grid:generate_grid"]
FRAME_MODS = ["darsia.utils.grid"]


def all_shapes(dim):
    n = {1: 12, 2: 7, 3: 5}[dim]
    return list(itertools.product(range(1, n + 1), repeat=dim))


def _chunks(tier):
    out = []
    for dim in (1, 2, 3):
        shp = all_shapes(dim)
        k = 4 if dim < 3 else 8
        for c in range(k):
            out.append(dict(dim=dim, chunk=c, of=k))
    return out


def check_grid(ctx, shape):
    dim = len(shape)
    g = darsia.Grid(tuple(shape), [0.5 + 0.25 * d for d in range(dim)])
    tag = f"shape {tuple(shape)}"
    nc = int(np.prod(shape))
    ok = g.num_cells == nc and g.cell_index.shape == tuple(shape)
    ok = ok and all(int(g.cell_index[v]) == int(np.ravel_multi_index(v, shape, order="F")) for v in np.ndindex(*shape))
    ctx.ensure(f"{tag}: cells numbered in Fortran order", ok)
    # face counts per axis follow from the shape
    cnt = [int(np.prod([shape[k] - (1 if k == d else 0) for k in range(dim)])) for d in range(dim)]
    ctx.ensure(f"{tag}: face counts per axis", [int(x) for x in g.num_faces_per_axis] == cnt and int(g.num_faces) == sum(cnt))
    faces = [[int(x) for x in g.faces[d]] for d in range(dim)]
    allf = [f for d in range(dim) for f in faces[d]]
    ctx.ensure(f"{tag}: every face numbered exactly once, numbers 0..F-1, {[len(f) for f in faces]} per axis",
               sorted(allf) == list(range(sum(cnt))) and [len(f) for f in faces] == cnt)
    conn = np.asarray(g.connectivity)
    ctx.ensure(f"{tag}: connectivity has one row of two cells per face", conn.shape == (sum(cnt), 2))
    ok_nb, pairs = True, set()
    for d in range(dim):
        e = np.zeros(dim, dtype=int)
        e[d] = 1
        for f in faces[d]:
            c0, c1 = int(conn[f, 0]), int(conn[f, 1])
            v0 = np.array(np.unravel_index(c0, shape, order="F"))
            v1 = np.array(np.unravel_index(c1, shape, order="F")) if 0 <= c1 < nc else None
            ok_nb = ok_nb and 0 <= c0 < nc and v1 is not None and bool(np.all(v1 - v0 == e)) and c0 < c1
            pairs.add((d, c0, c1))
    want_pairs = set()
    for d in range(dim):
        e = np.zeros(dim, dtype=int)
        e[d] = 1
        for v in np.ndindex(*shape):
            if v[d] + 1 < shape[d]:
                want_pairs.add((d, int(np.ravel_multi_index(v, shape, order="F")), int(np.ravel_multi_index(tuple(np.array(v) + e), shape, order="F"))))
    ctx.ensure(f"{tag}: each face joins two cells that are neighbours along its normal axis, lower index first", ok_nb)
    ctx.ensure(f"{tag}: every pair of neighbouring cells is joined by exactly one face", pairs == want_pairs and len(pairs) == sum(cnt))
    # reverse connectivity is the exact inverse; -1 only on the outer boundary
    rc = np.asarray(g.reverse_connectivity)
    ok_rc = rc.shape == (dim, nc, 2)
    if ok_rc:
        for d in range(dim):
            for c in range(nc):
                v = np.unravel_index(c, shape, order="F")
                lo = [f for f in faces[d] if int(conn[f, 1]) == c]     # face towards the lower-index neighbour
                hi = [f for f in faces[d] if int(conn[f, 0]) == c]
                ok_rc = ok_rc and int(rc[d, c, 0]) == (lo[0] if lo else -1) and int(rc[d, c, 1]) == (hi[0] if hi else -1)
                ok_rc = ok_rc and (len(lo) == 0) == (v[d] == 0) and (len(hi) == 0) == (v[d] == shape[d] - 1) and len(lo) <= 1 and len(hi) <= 1
    ctx.ensure(f"{tag}: cell-to-face lookup is the exact inverse of the face-to-cell connectivity, 'no face' only on the outer boundary", ok_rc)
    # interior / exterior partition
    ok_part = True
    for d in range(dim):
        i_, e_ = set(int(x) for x in g.interior_faces[d]), set(int(x) for x in g.exterior_faces[d])
        ok_part = ok_part and i_ | e_ == set(faces[d]) and not (i_ & e_) and len(i_) == len(g.interior_faces[d]) and len(e_) == len(g.exterior_faces[d])
        # interior faces of axis d: both neighbour cells away from the outer boundary in every other direction
        for f in faces[d]:
            v0 = np.unravel_index(int(conn[f, 0]), shape, order="F")
            inner = all(0 < v0[k] < shape[k] - 1 for k in range(dim) if k != d)
            ok_part = ok_part and (dim == 1 or (f in i_) == inner)   # 1-D: the code's own convention (end faces exterior)
    ctx.ensure(f"{tag}: interior and exterior faces partition the faces of each axis", ok_part)
    # corner indices lie on the face
    cc = np.asarray(g.cell_corners)
    cci = np.asarray(g.cell_corner_indices)
    ok_c = cci.shape == (sum(cnt), 2, 2 ** (dim - 1)) and cc.shape == (2 ** dim, dim)
    if ok_c:
        ok_c = sorted(tuple(int(x) for x in r) for r in cc) == sorted(itertools.product((0, 1), repeat=dim))
        for d in range(dim):
            for f in faces[d]:
                for side, coord in ((0, 1.0), (1, 0.0)):     # the face is the upper side of its lower cell, the lower side of its upper cell
                    idx = [int(x) for x in cci[f, side]]
                    ok_c = ok_c and len(set(idx)) == len(idx) and all(0 <= k < 2 ** dim and cc[k][d] == coord for k in idx)
    ctx.ensure(f"{tag}: recorded corner indices are distinct reference-cell corners lying on the face", ok_c)
    ctx.ensure(f"{tag}: face areas and voxel sizes", and_(eq(list(g.voxel_size), [0.5 + 0.25 * d for d in range(dim)]),
               eq(list(g.face_vol), [float(np.prod([0.5 + 0.25 * k for k in range(dim) if k != d])) for d in range(dim)])))


@ob("C07.grid", kind="B", cases=_chunks, funcs=FUNCS, samples=(1, 1),
    cite="each interior face is numbered exactly once, joins exactly two cells that are neighbours along the face's normal axis "
         "(listed in increasing index order), and the cell-to-face lookup is the exact inverse ... Face counts per axis follow from "
         "the shape, interior and exterior faces partition the faces of each axis, and the corner indices ... lie on that face",
    note="exhaustive over the property's own shape range: extents 1..12 (1-D), 1..7 (2-D), 1..5 (3-D), 186 shapes, every run")
def c07_grid(ctx, dim, chunk, of):
    before = frame.snapshot(FRAME_MODS)
    shp = all_shapes(dim)
    for s in shp[chunk::of]:
        check_grid(ctx, s)
        ctx.tick()
    ctx.ensure("no module- or class-level state written (frame)", frame.diff(before, frame.snapshot(FRAME_MODS)) == [])


class _GridRecorder:
    """R3 stand-in for darsia.Grid inside generate_grid: records the constructor arguments (symbolic extents cannot be
    enumerated by Grid._setup; Grid itself is covered exhaustively by C07.grid)."""
    def __init__(self, shape, voxel_size=1.0):
        self.shape, self.voxel_size = shape, voxel_size


def _grid_stub(ctx):
    ctx.stub_used("darsia.Grid(shape, voxel_size) inside generate_grid: constructor arguments recorded (Grid verified separately by C07.grid)")
    return _GridRecorder


@ob("C07.generate", cases=[dict(dim=d, payload=p) for d in (1, 2, 3) for p in ("scalar", "series", "vector", "vector-series")], mods=["darsia.utils.grid", "darsia.image.image"], funcs=FUNCS,
    stubs={"Grid": _grid_stub}, skip=("Grid.",), samples=(3, 10),
    cite="image-derived grids for random images", note="all image shapes / dimensions (ShapeOnly), incl. a second image after a first (history)")
def c07_generate(ctx, dim, payload="scalar"):
    before = frame.snapshot(FRAME_MODS)
    n0 = ctx.ints("m", dim, lo=1, sample=(1, 5))
    d0 = ctx.reals("e", dim, pos=True, sample=(0.5, 4.0))
    first = darsia.Image(ctx.shape_array(n0), space_dim=dim, scalar=True, dimensions=list(d0))
    darsia.generate_grid(first)
    n = ctx.ints("n", dim, lo=1, sample=(1, 5))
    d = ctx.reals("d", dim, pos=True, sample=(0.5, 4.0))
    # the grid is the grid of the SPATIAL axes: time steps (2) and components (3) of series / vector images are payload, wherever they sit in the array
    full = list(n) + ([2] if payload in ("series", "vector-series") else []) + ([3] if payload in ("vector", "vector-series") else [])
    kw = dict(space_dim=dim, scalar=payload in ("scalar", "series"), dimensions=list(d))
    if payload in ("series", "vector-series"):
        kw.update(series=True, time=[0.0, 1.0])
    img = darsia.Image(ctx.shape_array(full), **kw)
    g = darsia.generate_grid(img)
    ctx.ensure("grid has one axis per spatial dimension", len(g.shape) == dim)
    ctx.ensure("grid shape is the image's voxel counts", eq(list(g.shape), list(n)))
    ctx.ensure("grid voxel size is the image's voxel size", eq(list(g.voxel_size), [d[k] / n[k] for k in range(dim)]))
    ctx.ensure("no module- or class-level state written (frame)", frame.diff(before, frame.snapshot(FRAME_MODS)) == [])


@ob("C07.generate_history", kind="B", cases=[dict(dim=2), dict(dim=3)], funcs=FUNCS, samples=(1, 1),
    cite="image-derived grids for random images", note="bounded: sequences of images sharing physical size and voxel total but not shape")
def c07_generate_history(ctx, dim):
    shapes = [(2, 6), (6, 2), (3, 4), (4, 3), (1, 12), (12, 1)] if dim == 2 else [(2, 2, 3), (3, 2, 2), (2, 3, 2), (1, 4, 3), (12, 1, 1)]
    for s in shapes:
        img = darsia.Image(np.zeros(s), space_dim=dim, scalar=True, dimensions=[1.0] * dim)
        g = darsia.generate_grid(img)
        ref = darsia.Grid(tuple(s), [1.0 / k for k in s])
        ctx.ensure(f"{s}: generate_grid == Grid(num_voxels, voxel_size) regardless of earlier calls",
                   tuple(g.shape) == tuple(s) and bool(np.allclose(g.voxel_size, ref.voxel_size)) and bool(np.array_equal(g.connectivity, ref.connectivity))
                   and int(g.num_faces) == int(ref.num_faces))
        ctx.tick()


@ob("C07.generate_fresh", kind="B", cases=[dict(dim=1), dict(dim=2), dict(dim=3)], funcs=FUNCS, samples=(1, 2),
    cite="image-derived grids for random images (each grid is its caller's own object)",
    note="bounded: two images with IDENTICAL voxel counts and voxel sizes get two independent Grid objects - no array is shared, and editing the arrays of the first grid in place "
         "(a caller's padded-lookup trick) leaves a grid generated afterwards exactly the grid of its image (after seed C07_g: grids memoised by image metadata)")
def c07_generate_fresh(ctx, dim):
    shape = {1: (5,), 2: (3, 4), 3: (2, 3, 2)}[dim]
    mk = lambda: darsia.Image(np.zeros(shape), space_dim=dim, scalar=True, dimensions=[1.5, 2.0, 0.5][:dim])
    g1 = darsia.generate_grid(mk())
    arrays = lambda g: {k: v for k, v in vars(g).items() if isinstance(v, np.ndarray)}
    g1.reverse_connectivity[g1.reverse_connectivity == -1] = g1.num_faces
    g1.connectivity[...] = 0
    g1.cell_corner_indices[...] = 7
    g2 = darsia.generate_grid(mk())
    ctx.ensure("a second image with the same metadata gets its own Grid object", g2 is not g1)
    a1, a2 = arrays(g1), arrays(g2)
    ctx.ensure("no array of the second grid shares memory with the first", all(not np.shares_memory(a1[k], a2[k]) for k in a1 if k in a2 and a1[k].size))
    ref = darsia.Grid(tuple(shape), [d / n for d, n in zip([1.5, 2.0, 0.5][:dim], shape)])
    for k, v in arrays(ref).items():
        ctx.ensure(f"grid generated after the first one was edited: {k} is the grid's own", k in a2 and a2[k].shape == v.shape and bool(np.array_equal(a2[k], v)))


@ob("C07.generate_float", kind="B", cases=[dict(dim=1), dict(dim=2), dict(dim=3)], funcs=FUNCS, samples=(1, 1),
    cite="image-derived grids for random images (the grid of an image has the image's voxel counts)",
    note="bounded float sweep: generate_grid over extents 1..64 (1-D), 1..12 (2-D / 3-D) and physical sizes whose quotient dimension / voxel_size is not exact in floating point "
         "(0.92, 0.98, 0.1, 0.3, 0.7, 1.0, 1.1, 2.9, 1e-3); the proof C07.generate is over the reals and cannot see a count re-derived by ceil / round of a float quotient (after seed C07_h)")
def c07_generate_float(ctx, dim):
    sizes = (0.92, 0.98, 0.1, 0.3, 0.7, 1.0, 1.1, 2.9, 1e-3)
    exts = range(1, 65) if dim == 1 else range(1, 13)
    bad = []
    for n in exts:
        for d in sizes:
            shape = (n,) if dim == 1 else ((n, 7) if dim == 2 else (3, n, 2))
            dims = [d] * dim if dim == 1 else ([d, 0.98] if dim == 2 else [0.7, d, 1.1])
            img = darsia.Image(np.zeros(shape), space_dim=dim, scalar=True, dimensions=dims)
            g = darsia.generate_grid(img)
            ctx.tick()
            if tuple(int(x) for x in g.shape) != tuple(shape) or not np.allclose(np.asarray(g.voxel_size, dtype=float), np.asarray(img.voxel_size, dtype=float), rtol=1e-12, atol=0):
                bad.append((shape, dims, tuple(g.shape)))
    ctx.ensure(f"grid shape == image voxel counts and grid voxel size == image voxel size for every (extent, size) of the sweep; first failures: {bad[:3]}", not bad)


# shapes whose cell / face counts straddle the limits of the narrow integer types (127, 32767): an index table stored in a type chosen from
# the WRONG count wraps around silently there
LARGE_SHAPES = [(8, 12), (11, 12), (150, 150), (182, 181), (24, 25, 30), (33, 32, 32), (40000,)]


@ob("C07.index_range", kind="B", cases=[dict(shape=s) for s in LARGE_SHAPES], funcs=FUNCS, samples=(1, 1), tol=0.0,
    cite="every interior face joins exactly two neighbouring cells ... numbering of cells and faces is a bijection; the cell-to-face lookup is the inverse of the face-to-cell connectivity",
    note="bounded, vectorised: grids with up to 4e4 cells whose cell and face counts lie on either side of 2^7 and 2^15 - every index table holds valid indices (no wrap-around in a narrow "
         "integer type) and the cell-to-face table is exactly the inverse of the connectivity (after seed C07_k)")
def c07_index_range(ctx, shape):
    g = darsia.Grid(tuple(shape), [0.5] * len(shape))
    dim, nc, nf = len(shape), int(np.prod(shape)), int(g.num_faces)
    want_nf = sum(int(np.prod([n - 1 if a == d else n for a, n in enumerate(shape)])) for d in range(dim))
    ctx.ensure("number of cells and of interior faces", int(g.num_cells) == nc and nf == want_nf)
    conn = np.asarray(g.connectivity)
    ctx.ensure("connectivity: one row of two valid, different cell indices per face", conn.shape == (nf, 2) and conn.dtype.kind in "iu" and int(conn.min()) >= 0 and int(conn.max()) < nc and bool(np.all(conn[:, 0] < conn[:, 1])))
    ci = np.asarray(g.cell_index)
    ctx.ensure("cell numbering is a bijection onto 0 .. num_cells-1", ci.shape == tuple(shape) and bool(np.array_equal(np.sort(ci.ravel()), np.arange(nc))))
    faces = [np.asarray(f) for f in g.faces]
    allf = np.concatenate(faces) if faces else np.zeros(0, dtype=int)
    ctx.ensure("face numbering is a bijection onto 0 .. num_faces-1, grouped by axis", bool(np.array_equal(np.sort(allf), np.arange(nf))) and [len(f) for f in faces] == [int(n) for n in g.num_faces_per_axis])
    rc = np.asarray(g.reverse_connectivity)
    ctx.ensure("cell-to-face table: shape (dim, cells, 2), entries -1 or a valid face index", rc.shape == (dim, nc, 2) and rc.dtype.kind == "i" and int(rc.min()) >= -1 and int(rc.max()) < max(nf, 1))
    ok_inv = True
    for d in range(dim):
        f = faces[d]
        ok_inv = ok_inv and bool(np.array_equal(rc[d, conn[f, 1], 0], f)) and bool(np.array_equal(rc[d, conn[f, 0], 1], f))
        ok_inv = ok_inv and int(np.count_nonzero(rc[d] >= 0)) == 2 * len(f)
        ctx.tick()
    ctx.ensure("cell-to-face table is exactly the inverse of the connectivity (face f of axis d is the upper face of its lower cell and the lower face of its upper cell; nothing else is set)", ok_inv)
    fi = [np.asarray(x) for x in g.face_index]
    ctx.ensure("face_index tables hold the faces of their axis", all(bool(np.array_equal(np.sort(fi[d].ravel()), np.sort(faces[d]))) for d in range(dim)))
