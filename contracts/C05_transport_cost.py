"""C05 — computed Wasserstein distances behave like an optimal-transport cost."""
import itertools
import warnings

import numpy as np

import darsia
from darsia.measure import wasserstein as W
from vf import stubs
from vf.core import and_, eq, ob, product_cases

from .wass_common import BACKENDS, FORMULATIONS, L1_MODES, MOBILITY, balance_residual, base_options, cycles_basis, grid_of, images, mass_rhs, particular_flux, solver

FUNCS = ["darsia.measure.wasserstein:wasserstein_distance", "darsia.measure.wasserstein:VariationalWassersteinDistance.transport_density",
         "darsia.measure.wasserstein:VariationalWassersteinDistance.l1_dissipation", "darsia.measure.emd:EMD.__call__", "darsia.measure.emd:EMD._img_to_sig",
         "darsia.measure.emd:EMD._normalize", "darsia.measure.emd:EMD._sum", "darsia.utils.quadrature:gauss_reference_cell"]


def guarded(ctx, known_cfg, fn):
    """run fn(); the recorded known finding is exactly 'IndexError from the tangential reconstruction on a thin grid'"""
    try:
        return fn()
    except IndexError:
        if known_cfg:
            ctx.witness("subcell_or_face_mobility_on_thin_grid", True)
        raise


def run(method, m1, m2, weight=None, **kw):
    grid = darsia.generate_grid(m1)
    w = solver(method, grid, base_options(**kw), weight)
    cap = {}
    real = w._solve

    def spy(rhs):
        r = real(rhs)
        cap["solution"] = r[1].copy()
        return r
    w._solve = spy
    with warnings.catch_warnings():
        warnings.simplefilter("ignore")
        d, info = w(m1, m2)
    return d, info, w, cap["solution"][w.flux_slice]


def first_moment_displacement(m1, m2):
    """| sum_cells x_c (m2 - m1)_c * cell volume | with x_c the cell centres in matrix-axis physical units"""
    shape = m1.img.shape
    h = m1.voxel_size
    vol = float(np.prod(h))
    diff = (m2.img - m1.img) * vol
    mom = []
    for ax in range(len(shape)):
        x = (np.arange(shape[ax]) + 0.5) * h[ax]
        sl = [None] * len(shape)
        sl[ax] = slice(None)
        mom.append(float(np.sum(diff * x[tuple(sl)])))
    return float(np.linalg.norm(mom))


def _cfg_cases(tier):
    out = []
    shapes = [(6,), (4, 3), (3, 1), (2, 2, 2)] if tier == "quick" else [(6,), (12,), (4, 3), (3, 1), (1, 5), (6, 6), (2, 2, 2), (3, 2, 2), (1, 1, 4)]
    for shape in shapes:
        for method in ("newton", "bregman"):
            for l1 in L1_MODES:
                for mob in (MOBILITY if tier != "quick" else MOBILITY[:3]):
                    if tier == "quick" and hash((shape, method, l1.name, mob.name)) % 5:
                        continue
                    out.append(dict(shape=shape, method=method, l1=l1.name, mob=mob.name))
    return out


@ob("C05.metric", kind="B", cases=_cfg_cases, funcs=FUNCS, samples=(1, 2), tol=1e-6,
    cite="zero for identical distributions, unchanged when source and destination are swapped, scales linearly when both masses (or a constant cell "
         "weight) are multiplied by a positive constant, and is never smaller than ... the length of the displacement of the first moment of the mass",
    note="bounded: consequences of convergence of a regularised floating-point iteration are not decidable by contract; the lower bound follows from "
         "feasibility + distance = cost (C04) and is checked on every run, converged or not")
def c05_metric(ctx, shape, method, l1, mob):
    rng = np.random.default_rng(ctx.rng.randrange(1 << 30))
    grid, h = grid_of(shape)
    thin = min(shape) == 1 or len(shape) == 1
    known_cfg = thin and mob in ("SUBCELL_BASED", "FACE_BASED") and method == "bregman"
    ctx.witness("subcell_or_face_mobility_on_thin_grid", False)
    m1, m2 = images(shape, h, rng, "dense")
    kw = dict(l1_mode=W.L1Mode[l1], mobility_mode=W.MobilityMode[mob], num_iter=60 if ctx.tier != "quick" else 25)
    d0, _, _, _ = guarded(ctx, known_cfg, lambda: run(method, m1, m1.copy(), **kw))
    ctx.ensure("identical distributions: distance 0", abs(d0) <= 1e-10)
    d12, info, w, flux = run(method, m1, m2, **kw)
    d21, *_ = run(method, m2, m1, **kw)
    ctx.ensure("swap symmetry", abs(d12 - d21) <= 1e-6 * max(1.0, d12))
    for c in (2.0, 0.3):
        a, b = m1.copy(), m2.copy()
        a.img, b.img = c * m1.img, c * m2.img
        dc, infoc, *_ = run(method, a, b, **kw)
        if info["converged"] and infoc["converged"]:
            # positive homogeneity is a property of the minimum: only asserted when both runs met their stopping criteria
            ctx.ensure(f"scaling both masses by {c} scales the distance by {c} (both runs converged)", abs(dc - c * d12) <= 1e-4 * max(1.0, c * d12))
        ctx.ensure(f"scaled run: lower bound scales (distance >= {c} * first-moment displacement)", dc >= c * first_moment_displacement(m1, m2) - 1e-9)
    # lower bounds (hold whatever the iteration did): feasibility + cost
    ctx.ensure("returned flux is mass conserving", balance_residual(w, flux, m1, m2) <= 1e-7 * max(1.0, float(np.linalg.norm(mass_rhs(w, m1, m2)))))
    ctx.ensure("distance >= first-moment displacement", d12 >= first_moment_displacement(m1, m2) - 1e-9)
    ctx.ensure("distance is the cost of the returned flux", abs(d12 - w.l1_dissipation(flux)) <= 1e-10 * max(1.0, d12))


def _ident_cases(tier):
    shapes = [(2, 2), (2, 2, 2)] if tier == "quick" else [(5,), (2, 2), (3, 4), (2, 2, 2), (3, 2, 2)]
    return [dict(shape=s, method=m, mob=mob.name, form=f) for s in shapes for m in ("newton", "bregman") for mob in MOBILITY for f in ("full", "pressure")
            if not (len(s) == 1 and mob.name in ("SUBCELL_BASED", "FACE_BASED"))]


@ob("C05.identical", kind="B", cases=_ident_cases, funcs=FUNCS, samples=(1, 2), tol=1e-10,
    cite="The computed Wasserstein distance ... is zero for identical distributions",
    note="bounded: every mobility mode, both solvers, full and reduced linear systems; zero flux is the corner case of the mobility weights")
def c05_identical(ctx, shape, method, mob, form):
    rng = np.random.default_rng(ctx.rng.randrange(1 << 30))
    grid, h = grid_of(shape)
    for kind in ("dense", "sparse"):
        m1, _ = images(shape, h, rng, kind)
        for l1 in L1_MODES:
            ctx.tick()
            d0, info, w, flux = run(method, m1, m1.copy(), l1_mode=l1, mobility_mode=W.MobilityMode[mob], formulation=form, num_iter=8)
            ctx.ensure(f"{kind}/{l1.name}: identical distributions: distance 0", abs(d0) <= 1e-10)
            ctx.ensure(f"{kind}/{l1.name}: identical distributions: zero flux", float(np.max(np.abs(flux))) <= 1e-9)


def _min_cases(tier):
    shapes = [(2, 2), (3, 2), (2, 2, 1)] if tier == "quick" else [(2, 2), (3, 2), (2, 3), (3, 3), (4, 2), (2, 2, 2), (2, 2, 1), (1, 2, 3)]
    return [dict(shape=s, l1=l.name) for s in shapes for l in L1_MODES]


@ob("C05.minimum", kind="B", cases=_min_cases, funcs=FUNCS, samples=(1, 2), tol=1e-6,
    cite="never smaller than ... the true minimum of the discrete transport cost over all mass-conserving fluxes (computed by brute force on grids small enough to allow it)",
    note="bounded: grids with few independent flux cycles; the minimum of the convex cost over the affine feasible set is found by a derivative-free search started from several points")
def c05_minimum(ctx, shape, l1):
    import scipy.optimize
    rng = np.random.default_rng(ctx.rng.randrange(1 << 30))
    grid, h = grid_of(shape)
    m1, m2 = images(shape, h, rng, "dense")
    kw = dict(l1_mode=W.L1Mode[l1], num_iter=80 if ctx.tier != "quick" else 30)
    for method in ("newton", "bregman"):
        d, info, w, flux = run(method, m1, m2, **kw)
        b = mass_rhs(w, m1, m2)
        u0 = particular_flux(w, b)
        Z = cycles_basis(w)
        ctx.ensure("brute force feasible set: particular flux is mass conserving", float(np.linalg.norm(w.div.dot(u0) - b)) <= 1e-9 * max(1.0, float(np.linalg.norm(b))))
        cost = lambda z: w.l1_dissipation(u0 + Z @ z)
        best = np.inf
        starts = [np.zeros(Z.shape[1]), np.linalg.lstsq(Z, flux - u0, rcond=None)[0]] + [rng.standard_normal(Z.shape[1]) for _ in range(2)]
        for z0 in starts if Z.shape[1] else [np.zeros(0)]:
            if Z.shape[1] == 0:
                best = cost(z0)
                break
            r = scipy.optimize.minimize(cost, z0, method="Powell", options={"xtol": 1e-10, "ftol": 1e-12, "maxiter": 20000})
            best = min(best, float(r.fun))
        ctx.tick()
        ctx.ensure(f"{method}: distance >= brute-force minimum of the discrete cost", d >= best - 1e-7 * max(1.0, best))


def _thin_cases(tier):
    shapes = [(5,), (1, 4), (4, 1), (1, 1, 3), (3, 1, 1)] if tier == "quick" else [(n,) for n in range(2, 41, 3)] + [(1, n) for n in (2, 5, 9, 20, 40)] + [(n, 1) for n in (2, 7, 40)] + [(1, 1, 6), (1, 6, 1), (6, 1, 1)]
    out = []
    for s in shapes:
        for method in ("newton", "bregman"):
            for mob in MOBILITY:
                if tier == "quick" and hash((s, method, mob.name)) % 2:
                    continue
                out.append(dict(shape=s, method=method, mob=mob.name))
    return out


@ob("C05.thin", kind="B", cases=_thin_cases, funcs=FUNCS, samples=(1, 2), tol=1e-8,
    cite="Where mass conservation leaves no freedom (one-dimensional and one-cell-thin grids) every method and mobility option returns the cost of the "
         "unique mass-conserving flux, which is computable independently",
    note="bounded per grid; the unique feasible flux is computed by cumulative sums (independent of the library's operators)")
def c05_thin(ctx, shape, method, mob):
    rng = np.random.default_rng(ctx.rng.randrange(1 << 30))
    grid, h = grid_of(shape)
    known_cfg = mob in ("SUBCELL_BASED", "FACE_BASED") and method == "bregman"       # Newton handles the IndexError inside its iteration and still returns the unique-flux cost
    ctx.witness("subcell_or_face_mobility_on_thin_grid", False)
    m1, m2 = images(shape, h, rng, "dense")
    for l1 in L1_MODES:
        d, info, w, flux = guarded(ctx, known_cfg, lambda: run(method, m1, m2, l1_mode=l1, mobility_mode=W.MobilityMode[mob], num_iter=15))
        # unique flux: along the single long axis, face flux * face area = cumulative mass difference
        ax = int(np.argmax(shape))
        vol = float(np.prod(h))
        diff = np.ravel(np.moveaxis(m2.img - m1.img, ax, 0)) * vol
        area = vol / h[ax]
        q = np.cumsum(diff)[:-1] / area                     # normal flux on the interior faces, lower -> higher index
        ctx.ensure(f"{l1.name}: returned flux is the unique mass-conserving flux", bool(np.allclose(np.sort(np.abs(flux)), np.sort(np.abs(q)), rtol=1e-7, atol=1e-9)))
        # cost of that flux, computed independently per L1 mode: integral over each cell of |linear interpolant of the two face values|
        qq = np.concatenate([[0.0], q, [0.0]])
        lo, hi = qq[:-1], qq[1:]
        if l1 == W.L1Mode.CONSTANT_CELL_PROJECTION:
            cell = np.abs((lo + hi) / 2)
        elif l1 == W.L1Mode.CONSTANT_SUBCELL_PROJECTION:
            cell = (np.abs(lo) + np.abs(hi)) / 2
        else:
            cell = np.where(lo * hi >= 0, np.abs(lo + hi) / 2, (lo ** 2 + hi ** 2) / (2 * np.maximum(np.abs(lo) + np.abs(hi), 1e-300)))
        want = float(np.sum(cell) * vol)
        tol = 1e-8 if l1 != W.L1Mode.RAVIART_THOMAS else 2e-2        # Gauss rule is not exact for |linear| with a sign change
        ctx.ensure(f"{l1.name}: distance == independently computed cost of the unique flux", abs(d - want) <= tol * max(1.0, want))


@ob("C05.dispatch", cases=[dict(method="newton"), dict(method="bregman"), dict(method="cv2.emd")], mods=["darsia.measure.wasserstein"], funcs=FUNCS, samples=(0, 0),
    stubs={"WassersteinDistanceNewton": lambda ctx: _fake(ctx, "newton"), "WassersteinDistanceBregman": lambda ctx: _fake(ctx, "bregman"),
           "darsia.EMD": lambda ctx: _fake_emd(ctx), "darsia.generate_grid": lambda ctx: (lambda img: ("grid-of", img))},
    cite="the unified front-end returns what the back-end it dispatches to returns", note="back ends replaced by recording stand-ins returning an arbitrary value")
def c05_dispatch(ctx, method):
    if not ctx.sym:
        # concrete evaluator (replay): the stand-ins are installed by patching the module attributes
        import darsia as _d
        saved = (W.WassersteinDistanceNewton, W.WassersteinDistanceBregman, _d.EMD, _d.generate_grid)
        W.WassersteinDistanceNewton, W.WassersteinDistanceBregman, _d.EMD, _d.generate_grid = _fake(ctx, "newton"), _fake(ctx, "bregman"), _fake_emd(ctx), (lambda img: ("grid-of", img))
        try:
            return _dispatch_body(ctx, method)
        finally:
            W.WassersteinDistanceNewton, W.WassersteinDistanceBregman, _d.EMD, _d.generate_grid = saved
    return _dispatch_body(ctx, method)


def _dispatch_body(ctx, method):
    ctx.calls = []
    ret = ctx.real("ret", sample=(0.0, 5.0))
    ctx.ret = ret
    a, b, wt = object(), object(), object()
    opts = {"some": "options"}
    if method == "cv2.emd":
        out = W.wasserstein_distance(a, b, method="cv2.emd", preprocess="pp")
        ctx.ensure("cv2.emd: EMD(preprocess)(mass_1, mass_2) is returned", out is ret or eq(out, ret))
        ctx.ensure("cv2.emd: constructed with the preprocess option and called with the two masses in order", ctx.calls == [("EMD", "pp"), ("call", a, b)])
    else:
        out = W.wasserstein_distance(a, b, method=method.upper() if method == "newton" else method, weight=wt, options=opts)
        ctx.ensure(f"{method}: the solver's return value is returned unchanged", out is ret or eq(out, ret))
        ctx.ensure(f"{method}: solver built from the grid of mass_1, the weight and the options, called with the two masses in order",
                   ctx.calls == [(method, ("grid-of", a), wt, opts), ("call", a, b)])
    raised = False
    try:
        W.wasserstein_distance(a, b, method="nonsense")
    except Exception:
        raised = True
    ctx.ensure("unknown method is rejected", raised)


def _fake(ctx, name):
    class Fake:
        def __init__(self, grid, weight, options):
            ctx.calls.append((name, grid, weight, options))

        def __call__(self, m1, m2):
            ctx.calls.append(("call", m1, m2))
            return ctx.ret
    return Fake


def _fake_emd(ctx):
    class FakeEMD:
        def __init__(self, preprocess=None, **k):
            ctx.calls.append(("EMD", preprocess))

        def __call__(self, m1, m2):
            ctx.calls.append(("call", m1, m2))
            return ctx.ret
    return FakeEMD


def _emd_stub(ctx):
    def EMD(sig1, sig2, dist_type, *a, **k):
        ctx.stub_used("cv2.EMD(sig1, sig2, DIST_L2): returns (work, lower bound, flow) for the two signatures; the stub records them")
        ctx.emd_calls.append((np.array(sig1, dtype=object), np.array(sig2, dtype=object)))
        return ctx.emd_ret, None, None
    return EMD


@ob("C05.emd_units", cases=[dict(shape=s, layout=l) for s in ((2, 2), (2, 3)) for l in ("C", "F", "T-view", "mixed")], mods=["darsia.measure.emd"], funcs=FUNCS, samples=(1, 2),
    stubs={"cv2.EMD": _emd_stub}, skip=("_compatibility_check",), budget={"timeout_ms": 20000}, tol=1e-5,
    cite="the OpenCV earth-mover back-end returns mass times Euclidean distance in physical units",
    note="EMD.__call__ with cv2.EMD replaced by a recording stub: signatures carry normalised mass and physical pixel positions (col*dx, row*dy); result = cv2 work * mass sum * cell volume")
def c05_emd_units(ctx, shape, layout="C"):
    a = ctx.array("a", shape, pos=True, sample=(0.1, 1.0))
    b = ctx.array("b", shape, pos=True, sample=(0.1, 1.0))
    # memory layout of the pixel arrays is not part of an image's meaning: Fortran-ordered arrays, transposed views, mixed pairs
    if layout == "F":
        a, b = np.asfortranarray(a), np.asfortranarray(b)
    elif layout == "T-view":
        a, b = np.ascontiguousarray(a.T).T, np.ascontiguousarray(b.T).T
    elif layout == "mixed":
        b = np.asfortranarray(b)
    d = ctx.reals("d", 2, pos=True, sample=(0.5, 3.0))
    ctx.emd_calls = []
    ctx.emd_ret = ctx.real("work", sample=(0.0, 2.0))
    mk = lambda arr: darsia.Image(arr, space_dim=2, scalar=True, dimensions=list(d))
    e = darsia.EMD()
    e._compatibility_check = lambda x, y, tol=1e-6: True
    if not ctx.sym:
        import cv2
        real = cv2.EMD
        cv2.EMD = _emd_stub(ctx)
        try:
            out = e(mk(a), mk(b))
        finally:
            cv2.EMD = real
    else:
        out = e(mk(a), mk(b))
    hy, hx = d[0] / shape[0], d[1] / shape[1]
    suma = sum(a.flat)
    ctx.ensure("result == cv2 work * total mass * cell volume", eq(out, ctx.emd_ret * suma * (hy * hx)))
    s1, s2 = ctx.emd_calls[0]
    oks = []
    k = 0
    for r in range(shape[0]):
        for c in range(shape[1]):
            oks.append(eq([s1[k][0], s1[k][1], s1[k][2]], [a[r, c] / suma, c * hx, r * hy]))
            oks.append(eq([s2[k][0], s2[k][1], s2[k][2]], [b[r, c] / sum(b.flat), c * hx, r * hy]))
            k += 1
    ctx.ensure("signatures: (normalised mass, col * dx, row * dy) per pixel, row-major", and_(*oks))


@ob("C05.emd", kind="B", cases=[dict(shape=(4, 5), h=(1.0, 1.0)), dict(shape=(3, 6), h=(0.5, 0.25)), dict(shape=(5, 4), h=(2.0, 0.75))], funcs=FUNCS, samples=(1, 3), tol=1e-4,
    cite="the OpenCV earth-mover back-end returns mass times Euclidean distance in physical units for single-cell moves and obeys the same symmetry, scaling and first-moment bound",
    note="bounded: real cv2.EMD (float32 signatures)")
def c05_emd(ctx, shape, h):
    rng = np.random.default_rng(ctx.rng.randrange(1 << 30))
    dims = [shape[0] * h[0], shape[1] * h[1]]
    mk = lambda arr: darsia.Image(arr, space_dim=2, scalar=True, dimensions=list(dims))
    for _ in range(4):
        p, q = (int(rng.integers(shape[0])), int(rng.integers(shape[1]))), (int(rng.integers(shape[0])), int(rng.integers(shape[1])))
        mass = float(0.5 + rng.random())
        a, b = np.zeros(shape), np.zeros(shape)
        a[p], b[q] = mass, mass
        for front in (False, True):
            dist = darsia.wasserstein_distance(mk(a), mk(b), method="cv2.emd") if front else darsia.EMD()(mk(a), mk(b))
            want = mass * h[0] * h[1] * float(np.hypot((p[0] - q[0]) * h[0], (p[1] - q[1]) * h[1]))
            ctx.ensure(f"single-cell move {p}->{q}: mass * cell volume * Euclidean distance (front-end={front})", abs(dist - want) <= 1e-4 * max(1.0, want))
        ctx.tick()
    a, b = rng.random(shape) + 0.1, rng.random(shape) + 0.1
    b *= a.sum() / b.sum()
    d12, d21 = darsia.EMD()(mk(a), mk(b)), darsia.EMD()(mk(b), mk(a))
    ctx.ensure("symmetry", abs(d12 - d21) <= 1e-4 * max(1.0, d12))
    ctx.ensure("scaling", abs(darsia.EMD()(mk(3 * a), mk(3 * b)) - 3 * d12) <= 1e-4 * max(1.0, 3 * d12))
    ctx.ensure("first-moment bound", d12 >= first_moment_displacement(mk(a), mk(b)) - 1e-5)
    ctx.ensure("identical: zero", abs(darsia.EMD()(mk(a), mk(a.copy()))) <= 1e-6)
    for name, (x, y) in {"F/F": (np.asfortranarray(a), np.asfortranarray(b)), "C/F": (a, np.asfortranarray(b)), "T-view": (np.ascontiguousarray(a.T).T, np.ascontiguousarray(b.T).T)}.items():
        ctx.ensure(f"memory layout {name}: same distance as for C-ordered copies of the same arrays", abs(darsia.EMD()(mk(x), mk(y)) - d12) <= 1e-4 * max(1.0, d12))
    ctx.ensure("an image and its Fortran-ordered copy are identical distributions", abs(darsia.EMD()(mk(a), mk(np.asfortranarray(a)))) <= 1e-6)


@ob("C05.lemmas", kind="L", cases=[{}], samples=(0, 0), funcs=[],
    cite="never smaller than either the length of the displacement of the first moment of the mass or the true minimum of the discrete transport cost",
    note="Lean 4 + Mathlib (lemmas/DarsiaLemmas.lean): quadrature_lower_bound (non-negative weights: norm of the weighted mean <= weighted mean of the norms), cost_ge_min; "
         "the hypotheses 'positive weights exact on linears' are C15, 'the returned flux is feasible and the distance is its cost' are checked by C04 / C05.metric on every run")
def c05_lemmas(ctx):
    from vf.lean import check
    res = check()
    ctx.ensure("lemma file compiles with Lean 4 + Mathlib without errors, sorry, axioms or admits: " + res["output"][:300], res["ok"])
    ctx.ensure("lemmas present", {"quadrature_lower_bound", "cost_ge_min"} <= set(res["theorems"]))


@ob("C05.frontend_history", kind="B", cases=[dict(method="newton"), dict(method="bregman")], funcs=FUNCS, samples=(1, 2), tol=1e-9,
    cite="the unified front-end returns what the back-end it dispatches to returns (also for the second and later calls in a process)",
    note="bounded: successive front-end calls on images of the same voxel counts but other voxel sizes vs the back-end class on a fresh grid; module-level frame")
def c05_frontend_history(ctx, method):
    from vf import frame
    rng = np.random.default_rng(ctx.rng.randrange(1 << 30))
    before = frame.snapshot(["darsia.measure.wasserstein", "darsia.utils.grid"])
    for shape in ((5,), (3, 4)):
        for scale in (1.0, 3.0, 0.25):
            grid, h = grid_of(shape, scale=scale)
            m1, m2 = images(shape, h, rng)
            opts = base_options(num_iter=15, return_info=False)
            with warnings.catch_warnings():
                warnings.simplefilter("ignore")
                front = darsia.wasserstein_distance(m1, m2, method=method, options=dict(opts))
                back = solver(method, darsia.Grid(tuple(shape), list(h)), opts)(m1, m2)
            ctx.tick()
            ctx.ensure(f"shape {shape}, voxel scale {scale}: front-end == back-end on a fresh grid of THIS image", abs(front - back) <= 1e-9 * max(1.0, abs(back)))
            ctx.ensure(f"shape {shape}, voxel scale {scale}: first-moment bound", front >= first_moment_displacement(m1, m2) - 1e-9)
    ctx.ensure("no module-level state written by the front-end (frame)", frame.diff(before, frame.snapshot(["darsia.measure.wasserstein", "darsia.utils.grid"])) == [])


# ---- thin grids: the unique flux, proved on the real iterations (back end H; machinery of C04.step) --------------------------------------

from .C04_wasserstein import STEP_STUBS, _abstract_mobility_and_cost  # noqa: E402


def _unique_flux(grid, shape, h, f):
    """the only flux with div u = M f on a grid that is one cell thin in all but one axis: cumulative mass difference / face area"""
    ax = int(np.argmax(shape))
    vol = 1.0
    for x in h:
        vol = vol * x
    area = vol / h[ax]
    fl = np.ravel(np.moveaxis(np.asarray(f).reshape(shape, order="F"), ax, 0))
    q, acc = [], 0
    for c in range(len(fl) - 1):
        acc = acc + fl[c] * vol
        q.append(acc / area)
    return np.array(q, dtype=object if any(not isinstance(v, float) for v in q) else float)


@ob("C05.thin_flux", cases=lambda tier: [dict(shape=s, method=m, form=f, num_iter=k) for s in ([(4,), (1, 3), (3, 1), (1, 1, 3)] if tier == "quick" else [(2,), (4,), (6,), (1, 3), (3, 1), (1, 5), (1, 1, 3), (1, 3, 1), (4, 1, 1)])
                                         for m in ("newton", "bregman") for f in ("full", "pressure") for k in ((2,) if tier == "quick" else (1, 2, 3))]
    # every method OPTION: the Bregman penalty parameter L other than that of the Darcy initialisation (the system matrix changes between the initial and the first regular solve)
    + [dict(shape=s, method="bregman", form=f, num_iter=2, L=L) for s in [(4,), (1, 3)] for f in ("full", "pressure", "flux_reduced") for L in (0.25, 3.0)]
    # the smallest iteration budgets, incl. the empty one (only the Darcy initialisation exists): still the cost of the unique flux
    + [dict(shape=(4,), method=m, form=f, num_iter=k) for m in ("newton", "bregman") for f in ("full", "pressure") for k in (0, 1)],
    mods=["darsia.measure.wasserstein", "darsia.utils.fv", "darsia.utils.andersonacceleration"], stubs=STEP_STUBS, funcs=FUNCS, samples=(1, 2),
    budget={"timeout_ms": 30000, "paths": 64, "decide_ms": 1500, "arith_solver": 2, "wall_s": 400}, tol=1e-7,
    assumes=["splu(M).solve(b) returns x with M x = b exactly (direct back end)", "sparse-matrix model vf/symsparse.py (validated by C08.dep_sparse)",
             "mobility abstracted by its contract (C04.face_weight): every mobility option; cost abstracted to an uninterpreted function: every L1 mode"],
    cite="Where mass conservation leaves no freedom (one-dimensional and one-cell-thin grids) every method and mobility option returns the cost of the unique mass-conserving flux",
    note="the real _solve on a symbolic mass difference: the returned flux IS the cumulative-sum flux and the distance is the cost functional at that flux - all data, every positive "
         "mobility, every cost functional; per thin grid shape")
def c05_thin_flux(ctx, shape, method, form, num_iter, L=1.0):
    grid, h = grid_of(shape)
    w = solver(method, grid, base_options(L=L, formulation=form, linear_solver="direct", num_iter=num_iter, tol_residual=2.0 ** -10, tol_increment=2.0 ** -10, tol_distance=2.0 ** -10))
    nf, nc = int(grid.num_faces), int(grid.num_cells)
    f = ctx.array("f", (nc - 1,), sample=(-1.0, 1.0))
    f = np.concatenate([f, [-sum(f)]])
    l1 = _abstract_mobility_and_cost(ctx, w) if ctx.sym else w.l1_dissipation
    with warnings.catch_warnings():
        warnings.simplefilter("ignore")
        dist, sol, info = w._solve(f.copy())
    flux = sol[w.flux_slice]
    q = _unique_flux(grid, shape, h, f)
    ctx.ensure("one interior face per pair of neighbouring cells along the long axis", len(q) == nf)
    for i in range(nf):
        ctx.ensure(f"face {i}: the returned flux is the unique mass-conserving flux (cumulative mass difference / face area)", eq(flux[i], q[i]))
    ctx.ensure("the distance is the cost functional evaluated at the unique flux", eq(dist, l1(np.array(list(q), dtype=object if ctx.sym else float))))


@ob("C05.thin_cost", cases=lambda tier: [dict(shape=s, l1=l, weighted=wt) for s in ([(4,), (1, 3), (3, 1)] if tier == "quick" else [(2,), (4,), (6,), (1, 3), (3, 1), (1, 1, 3), (1, 3, 1)])
                                         for l in ("CONSTANT_CELL_PROJECTION", "CONSTANT_SUBCELL_PROJECTION") for wt in (False, True)],
    mods=["darsia.measure.wasserstein", "darsia.utils.fv"], stubs=STEP_STUBS, funcs=FUNCS + ["darsia.measure.wasserstein:VariationalWassersteinDistance.l1_dissipation",
    "darsia.measure.wasserstein:VariationalWassersteinDistance.transport_density"], samples=(2, 4), budget={"timeout_ms": 30000, "decide_ms": 1500, "arith_solver": 2},
    cite="returns the cost of the unique mass-conserving flux, which is computable independently",
    note="the real l1_dissipation on a symbolic flux of a thin grid equals the independently written cost: sum over cells of cell volume * cell weight * |mean of the two face values| "
         "(cell projection) resp. mean of the two |face values| (sub-cell projection); sqrt over the reals")
def c05_thin_cost(ctx, shape, l1, weighted):
    grid, h = grid_of(shape)
    dim = len(shape)
    wimg = None
    cw = np.ones(shape)
    if weighted:
        cw = ctx.array("cw", shape, pos=True, sample=(0.5, 2.0))
        wimg = darsia.Image(cw, space_dim=dim, scalar=True, dimensions=[shape[k] * h[k] for k in range(dim)])
    w = solver("newton", grid, base_options(l1_mode=W.L1Mode[l1], formulation="full"), wimg)
    nf = int(grid.num_faces)
    q = ctx.array("q", (nf,), sample=(-2.0, 2.0))
    got = w.l1_dissipation(q)
    vol = float(np.prod(h))
    ax = int(np.argmax(shape))
    cwl = np.ravel(np.moveaxis(np.asarray(cw), ax, 0))
    qq = [0.0] + list(q) + [0.0]
    want = 0
    for c in range(len(qq) - 1):
        lo, hi = qq[c], qq[c + 1]
        cell = abs((lo + hi) / 2) if l1 == "CONSTANT_CELL_PROJECTION" else (abs(lo) + abs(hi)) / 2
        want = want + vol * cwl[c] * cell
    ctx.ensure("l1_dissipation(flux) == independently written cost of that flux", eq(got, want))


@ob("C05.thin_cost_rt", kind="B", cases=[dict(shape=s, weighted=wt) for s in [(4,), (7,), (12,), (1, 5), (6, 1), (1, 1, 4)] for wt in (False, True)], funcs=FUNCS, samples=(2, 5), tol=1e-11,
    cite="Where mass conservation leaves no freedom (one-dimensional and one-cell-thin grids) every method ... returns the cost of the unique mass-conserving flux, which is computable independently",
    note="bounded companion of C05.thin_cost for the default Raviart-Thomas mode: on a thin grid the cost of a flux is the sum over cells of volume * weight * (5-point Gauss-Legendre "
         "integral over the cell of |linear interpolant of the two face values|), computed here with numpy's own leggauss; sign changes inside cells included; reversing the cell "
         "order leaves the cost unchanged (after seed C05_h: points and weights of the 1-D rule paired in different orders)")
def c05_thin_cost_rt(ctx, shape, weighted):
    rng = np.random.default_rng(ctx.rng.randrange(1 << 30))
    grid, h = grid_of(shape)
    dim = len(shape)
    cw = rng.random(shape) + 0.5 if weighted else np.ones(shape)
    wimg = darsia.Image(cw.copy(), space_dim=dim, scalar=True, dimensions=[shape[k] * h[k] for k in range(dim)]) if weighted else None
    w = solver("newton", grid, base_options(l1_mode=W.L1Mode.RAVIART_THOMAS, formulation="full"), wimg)
    nf = int(grid.num_faces)
    q = rng.standard_normal(nf)
    got = float(w.l1_dissipation(q))
    ax = int(np.argmax(shape))
    vol = float(np.prod(h))
    cwl = np.ravel(np.moveaxis(cw, ax, 0))
    x, wt = np.polynomial.legendre.leggauss({1: 5, 2: 4, 3: 3}[dim])      # points per direction of the code's 'max' rule (orders 4, 3, 2)
    # the rule the code uses on a thin grid in dim dimensions: tensor Gauss rule of its 'max' order; the integrand varies along the long axis only, so the
    # tensor rule collapses to the 1-D rule of the same number of points per direction
    x, wt = (x + 1) / 2, wt / 2
    qq = np.concatenate([[0.0], q, [0.0]])
    want = sum(vol * cwl[c] * float(np.sum(wt * np.abs(qq[c] + (qq[c + 1] - qq[c]) * x))) for c in range(len(qq) - 1))
    ctx.ensure("l1_dissipation (Raviart-Thomas) == independently integrated cost of the flux", abs(got - want) <= 1e-11 * max(1.0, abs(want)))
    # reflection: the same flux on the reversed grid line
    if dim == 1:
        wr = solver("newton", grid, base_options(l1_mode=W.L1Mode.RAVIART_THOMAS, formulation="full"),
                    darsia.Image(cw[::-1].copy(), space_dim=1, scalar=True, dimensions=[shape[0] * h[0]]) if weighted else None)
        ctx.ensure("reversing the order of the cells does not change the cost", abs(float(wr.l1_dissipation(-q[::-1])) - got) <= 1e-11 * max(1.0, abs(got)))


@ob("C05.moment_bound", cases=[dict(shape=s, l1=l, weighted=wt) for s in [(3,), (5,), (2, 1), (1, 3), (1, 1, 3)] for l in ("CONSTANT_CELL_PROJECTION", "CONSTANT_SUBCELL_PROJECTION") for wt in (False,)],
    mods=["darsia.measure.wasserstein", "darsia.utils.fv"], stubs=STEP_STUBS, funcs=FUNCS, samples=(2, 4), budget={"timeout_ms": 20000, "decide_ms": 1500},
    cite="never smaller than ... the length of the displacement of the first moment of the mass",
    note="for EVERY flux u on a thin grid (not only the one a solver returns): cost(u)^2 >= |sum_c x_c (div u)_c|^2, the squared first-moment displacement of the mass difference u "
         "transports - the real l1_dissipation and the real divergence on symbolic fluxes.  On grids with two extended axes the statement is the triangle inequality for the cell "
         "fluxes, which z3 does not discharge (tried: unknown after 45 s on 2x2); there it rests on the Lean lemma quadrature_lower_bound and on the bounded C05.metric")
def c05_moment_bound(ctx, shape, l1, weighted):
    grid, h = grid_of(shape)
    dim = len(shape)
    w = solver("newton", grid, base_options(l1_mode=W.L1Mode[l1], formulation="full"))
    q = ctx.array("q", (int(grid.num_faces),), sample=(-2.0, 2.0))
    cost = w.l1_dissipation(q)
    b = w.div.dot(q)
    m2 = 0
    for d in range(dim):
        s = 0
        for c in range(int(grid.num_cells)):
            v = np.unravel_index(c, shape, order="F")
            s = s + (v[d] + 0.5) * h[d] * b[c]
        m2 = m2 + s * s
    ctx.ensure("cost >= 0", cost >= 0)
    ctx.ensure("cost^2 >= |first-moment displacement of the transported mass difference|^2", cost * cost >= m2)


@ob("C05.dep_emd", kind="B", samples=(2, 6), funcs=[], tol=1e-4, cite="(validation of an assumed dependency contract)",
    note="meaning of cv2.EMD's first return value (mass-normalised work for the signatures' positions) against the installed OpenCV; float32")
def c05_dep_emd(ctx):
    from contracts import deps_validation as dv
    dv.dep_emd(ctx)
