"""C02 — sub-images (subregion / time_slice / time_interval / append / stack) keep data and physical placement."""
import itertools
from datetime import datetime, timedelta

import numpy as np

import darsia
from vf.core import and_, eq, ite, ob, product_cases
from vf.sym import sym_max, sym_min

MODS = ["darsia.image.coordinatesystem", "darsia.image.indexing", "darsia.utils.point", "darsia.image.image",
        "darsia.image.arithmetics"]
FUNCS = ["darsia.image.image:Image.subregion", "darsia.image.image:Image.time_slice", "darsia.image.image:Image.time_interval",
         "darsia.image.image:Image.append", "darsia.image.image:Image.metadata", "darsia.image.image:Image.__init__",
         "darsia.image.image:Image.set_time", "darsia.image.arithmetics:stack",
         "darsia.image.coordinatesystem:CoordinateSystem.coordinate", "darsia.image.coordinatesystem:CoordinateSystem.voxel"]

T0 = datetime(2023, 5, 1, 12, 0, 0)


def build(ctx, dim, payload, nt=3, tag="", times="rel", shape_only=True, shape=None):
    """Parent image with symbolic metadata.  payload in scalar|vector|series|vector-series.
    times: 'rel' symbolic relative times, 'date' concrete dates (+ symbolic reference offset not possible), 'none'."""
    if shape is None:
        n = ctx.ints(f"n{tag}", dim, lo=1, sample=(2, 6))
    else:
        n = list(shape)
    d = ctx.reals(f"d{tag}", dim, pos=True, sample=(0.1, 40.0))
    o = ctx.reals(f"o{tag}", dim, sample=(-100.0, 100.0))
    full = list(n)
    kw = dict(space_dim=dim, dimensions=list(d), origin=list(o), name="parent" + tag)
    series = payload in ("series", "vector-series")
    kw["scalar"] = payload in ("scalar", "series")
    kw["series"] = series
    tvals = dates = None
    if series:
        full.append(nt)
        if times == "rel":
            tvals = ctx.reals(f"t{tag}", nt, sample=(0.0, 1000.0))
            kw["time"] = list(tvals)
        elif times == "date":
            dates = [T0 + timedelta(minutes=17 * i * i + 3 * i) for i in range(nt)]
            kw["date"] = list(dates)
            kw["reference_date"] = T0 - timedelta(hours=1)
    else:
        if times == "rel":
            tvals = ctx.real(f"t{tag}", sample=(0.0, 1000.0))
            kw["time"] = tvals
        elif times == "date":
            dates = T0 + timedelta(minutes=5)
            kw["date"] = dates
            kw["reference_date"] = T0 - timedelta(hours=1)
    if not kw["scalar"]:
        full.append(3)
    if shape_only:
        arr = ctx.shape_array(full)
    else:
        arr = ctx.array(f"a{tag}", full)
    img = darsia.Image(arr, **kw)
    return img, n, d, o, tvals, dates


def same_time_meta(ctx, label, child, parent):
    ctx.ensure(f"{label}: series/scalar flags kept", child.series == parent.series and child.scalar == parent.scalar)
    ctx.ensure(f"{label}: dates kept", child.date == parent.date and child.reference_date == parent.reference_date)
    ctx.ensure(f"{label}: relative times kept", _eq_time(child.time, parent.time))
    ctx.ensure(f"{label}: name, indexing, space_dim kept",
               child.name == parent.name and child.indexing == parent.indexing and child.space_dim == parent.space_dim)
    ctx.ensure(f"{label}: same image class", type(child) is type(parent))


def _eq_time(a, b):
    if a is None or b is None:
        return a is None and b is None
    if isinstance(a, list) != isinstance(b, list):
        return False
    if isinstance(a, list):
        if len(a) != len(b):
            return False
        return and_(*[_eq_time(x, y) for x, y in zip(a, b)]) if a else True
    return eq(a, b)


def placement_clauses(ctx, label, parent, child, start, extent, dim):
    """child voxel v <-> parent voxel v + start: same coordinate, same voxel size, block extents."""
    v = ctx.ints("v", dim, sample=(-2, 7))
    cc = child.coordinatesystem.coordinate(list(v))
    cp = parent.coordinatesystem.coordinate([v[m] + start[m] for m in range(dim)])
    ctx.ensure(f"{label}: coordinate(child voxel v) == coordinate(parent voxel v + start)", eq(list(cc), list(cp)))
    ctx.ensure(f"{label}: voxel sizes equal", eq(list(child.voxel_size), list(parent.voxel_size)))
    ctx.ensure(f"{label}: spatial shape is the block extent", eq(list(child.img.shape[:dim]), list(extent)))
    ctx.ensure(f"{label}: payload axes kept", tuple(child.img.shape[dim:]) == tuple(parent.img.shape[dim:]))
    ctx.ensure(f"{label}: dimensions == extent * voxel size",
               eq(list(child.dimensions), [extent[m] * parent.voxel_size[m] for m in range(dim)]))


OPEN = ("closed", "open-start", "open-stop", "open-both")


@ob("C02.placement", cases=lambda tier: product_cases(dim=(1, 2, 3), payload=("scalar", "vector", "series", "vector-series"), ends=OPEN),
    mods=MODS, funcs=FUNCS,
    cite="each of its voxels has the same physical coordinate, voxel size, time stamp and payload layout as the voxel it was taken from")
def c02_placement(ctx, dim, payload, ends):
    img, n, d, o, tv, dates = build(ctx, dim, payload)
    a = ctx.ints("a", dim, lo=0, sample=(0, 3))
    b = ctx.ints("b", dim, sample=(1, 6))
    for m in range(dim):
        ctx.assume(and_(a[m] < b[m], b[m] <= n[m]))
    sl, start, extent = [], [], []
    for m in range(dim):
        s0 = None if ends in ("open-start", "open-both") else a[m]
        s1 = None if ends in ("open-stop", "open-both") else b[m]
        sl.append(slice(s0, s1))
        lo = 0 if s0 is None else a[m]
        hi = n[m] if s1 is None else b[m]
        start.append(lo)
        extent.append(hi - lo)
    sub = img.subregion(tuple(sl))
    placement_clauses(ctx, "subregion(slices)", img, sub, start, extent, dim)
    same_time_meta(ctx, "subregion(slices)", sub, img)


def _clipped(lo, hi, n):
    return sym_max(0, lo), sym_min(hi, n)


@ob("C02.roi_voxels", cases=lambda tier: product_cases(dim=(2, 3), npts=(2, 3)), mods=MODS, funcs=FUNCS,
    cite="selected by ... voxel corner points ...; ROIs partly outside the image (clipped)")
def c02_roi_voxels(ctx, dim, npts):
    img, n, d, o, tv, dates = build(ctx, dim, "scalar")
    P = np.array([[ctx.int(f"p{r}_{m}", sample=(-2, 8)) for m in range(dim)] for r in range(npts)])
    lo = [None] * dim
    hi = [None] * dim
    for m in range(dim):
        mn, mx = P[0][m], P[0][m]
        for r in range(1, npts):
            mn, mx = sym_min(mn, P[r][m]), sym_max(mx, P[r][m])
        lo[m], hi[m] = _clipped(mn, mx, n[m])
        ctx.assume(lo[m] < hi[m])         # non-empty after clipping
    sub = img.subregion(darsia.make_voxel(P))
    placement_clauses(ctx, "subregion(VoxelArray)", img, sub, lo, [hi[m] - lo[m] for m in range(dim)], dim)
    same_time_meta(ctx, "subregion(VoxelArray)", sub, img)


@ob("C02.roi_coordinates", cases=lambda tier: product_cases(dim=(2, 3), npts=(2,)), mods=MODS, funcs=FUNCS,
    cite="a physical box selects the same block as the voxel box obtained by converting its corners to voxel indices")
def c02_roi_coordinates(ctx, dim, npts):
    img, n, d, o, tv, dates = build(ctx, dim, "scalar")
    # corner points given in voxel units with fractional part, so that the box is well inside / partly outside
    F = [[ctx.real(f"f{r}_{m}", sample=(-2.0, 8.0)) for m in range(dim)] for r in range(npts)]
    C = np.array([list(img.coordinatesystem.coordinate(np.array(F[r]))) for r in range(npts)])
    V = img.coordinatesystem.voxel(darsia.make_coordinate(C))
    lo = [None] * dim
    hi = [None] * dim
    for m in range(dim):
        mn, mx = V[0][m], V[0][m]
        for r in range(1, npts):
            mn, mx = sym_min(mn, V[r][m]), sym_max(mx, V[r][m])
        lo[m], hi[m] = _clipped(mn, mx, n[m])
        ctx.assume(lo[m] < hi[m])
    sub = img.subregion(darsia.make_coordinate(C))
    placement_clauses(ctx, "subregion(CoordinateArray)", img, sub, lo, [hi[m] - lo[m] for m in range(dim)], dim)
    subv = img.subregion(darsia.make_voxel(np.asarray(V)))
    ctx.ensure("physical box == voxel box of converted corners: shape", eq(list(sub.img.shape), list(subv.img.shape)))
    ctx.ensure("physical box == voxel box of converted corners: origin", eq(list(sub.origin), list(subv.origin)))
    ctx.ensure("physical box == voxel box of converted corners: dimensions", eq(list(sub.dimensions), list(subv.dimensions)))


def _ranges(n):
    return [(a, b) for a in range(n) for b in range(a + 1, n + 1)]


def _block_cases(tier):
    shapes2 = [(2, 3), (3, 2)] if tier == "quick" else [(1, 1), (1, 3), (2, 3), (3, 2), (3, 3), (4, 2), (2, 4), (4, 4)]
    shapes3 = [(2, 2, 3)] if tier == "quick" else [(1, 2, 2), (2, 2, 3), (3, 2, 2), (2, 3, 2), (3, 3, 3)]
    out = []
    for s in shapes2 + shapes3:
        for payload in ("scalar", "vector", "series", "vector-series"):
            out.append(dict(shape=s, payload=payload))
    return out


@ob("C02.block", cases=_block_cases, mods=MODS, funcs=FUNCS, samples=(1, 2),
    cite="contains exactly the corresponding block of the parent's data")
def c02_block(ctx, shape, payload):
    dim = len(shape)
    img, n, d, o, tv, dates = build(ctx, dim, payload, nt=2, shape_only=False, shape=shape)
    data = img.img
    for roi in itertools.product(*[_ranges(s) for s in shape]):
        sub = img.subregion(tuple(slice(a, b) for a, b in roi))
        want = data[tuple(slice(a, b) for a, b in roi)]
        ok = sub.img.shape == want.shape and bool(np.all(sub.img == want)) if not ctx.sym else (
            sub.img.shape == want.shape and all(x is y for x, y in zip(sub.img.flat, want.flat)))
        ctx.ensure(f"block {roi}: child.img[v] is parent.img[v + start] for every voxel, payload axes intact", ok)
    ctx.ensure("parent array untouched", img.img is data)


def _time_cases(tier):
    return product_cases(dim=(2, 3) if tier != "quick" else (2,), payload=("series", "vector-series"), times=("rel", "date", "none"), nt=(1, 3))


@ob("C02.time", cases=_time_cases, mods=MODS, funcs=FUNCS, samples=(1, 2),
    cite="time slice or time interval contains exactly the corresponding block ... same ... time stamp and payload layout")
def c02_time(ctx, dim, payload, times, nt):
    shape = (2, 3) if dim == 2 else (2, 1, 2)
    img, n, d, o, tv, dates = build(ctx, dim, payload, nt=nt, times=times, shape_only=False, shape=shape)
    data = img.img
    scalar = payload == "series"

    def tslice(arr, i):
        return arr[..., i] if scalar else arr[..., i, :]

    def same(x, y):
        return x.shape == y.shape and (all(p is q for p, q in zip(x.flat, y.flat)) if ctx.sym else bool(np.all(x == y)))

    for i in range(nt):
        s = img.time_slice(i)
        ctx.ensure(f"time_slice({i}): data", same(s.img, tslice(data, i)))
        ctx.ensure(f"time_slice({i}): single-time image of the same class and payload", s.series is False and s.scalar == img.scalar and type(s) is type(img))
        ctx.ensure(f"time_slice({i}): date", s.date == (None if dates is None else dates[i]))
        ctx.ensure(f"time_slice({i}): reference date kept", s.reference_date == img.reference_date)
        ctx.ensure(f"time_slice({i}): relative time", _eq_time(s.time, img.time[i]))
        if times == "date":
            ctx.ensure(f"time_slice({i}): relative time is date - reference", s.time == (dates[i] - img.reference_date).total_seconds())
        ctx.ensure(f"time_slice({i}): placement kept", and_(eq(list(s.origin), list(o)), eq(list(s.dimensions), list(d)), s.img.shape[:dim] == tuple(shape)))
    for a, b in [(a, b) for a in range(nt) for b in range(a + 1, nt + 1)] + [(None, None)]:
        for form in ((a, b),) if a is None else ((a, b), (a, None), (None, b)):
            sl = slice(*form)
            t = img.time_interval(sl)
            idx = list(range(nt))[sl]
            ctx.ensure(f"time_interval({form}): still a series with {len(idx)} steps", t.series is True and t.time_num == len(idx))
            ctx.ensure(f"time_interval({form}): data", same(t.img, data[..., sl] if scalar else data[..., sl, :]))
            ctx.ensure(f"time_interval({form}): dates", t.date == ([None] * len(idx) if dates is None else [dates[k] for k in idx]))
            ctx.ensure(f"time_interval({form}): relative times", _eq_time(t.time, [img.time[k] for k in idx]))
            ctx.ensure(f"time_interval({form}): reference date, placement kept",
                       and_(t.reference_date == img.reference_date, eq(list(t.origin), list(o)), eq(list(t.dimensions), list(d))))
            # nesting: slice of an interval is the slice of the parent
            for j, k in enumerate(idx):
                ts = t.time_slice(j)
                ctx.ensure(f"time_interval({form}).time_slice({j}) == time_slice({k})",
                           and_(same(ts.img, tslice(data, k)), ts.date == (None if dates is None else dates[k]), _eq_time(ts.time, img.time[k])))


@ob("C02.nest", cases=lambda tier: product_cases(dim=(2, 3), payload=("scalar", "vector-series")), mods=MODS, funcs=FUNCS,
    cite="This stays true under arbitrary nesting of extractions")
def c02_nest(ctx, dim, payload):
    """Two nested spatial extractions compose to the extraction of the composed range, and spatial / temporal extraction
    commute; with C02.placement (offset embedding) arbitrary nesting depth follows by induction (lemma C02.compose)."""
    img, n, d, o, tv, dates = build(ctx, dim, payload)
    a1 = ctx.ints("a", dim, lo=0, sample=(0, 2))
    b1 = ctx.ints("b", dim, sample=(2, 6))
    a2 = ctx.ints("aa", dim, lo=0, sample=(0, 1))
    b2 = ctx.ints("bb", dim, sample=(1, 3))
    for m in range(dim):
        ctx.assume(and_(a1[m] < b1[m], b1[m] <= n[m], a2[m] < b2[m], b2[m] <= b1[m] - a1[m]))
    s1 = img.subregion(tuple(slice(a1[m], b1[m]) for m in range(dim)))
    s2 = s1.subregion(tuple(slice(a2[m], b2[m]) for m in range(dim)))
    direct = img.subregion(tuple(slice(a1[m] + a2[m], a1[m] + b2[m]) for m in range(dim)))
    placement_clauses(ctx, "nested subregion", img, s2, [a1[m] + a2[m] for m in range(dim)], [b2[m] - a2[m] for m in range(dim)], dim)
    ctx.ensure("nested == direct: origin", eq(list(s2.origin), list(direct.origin)))
    ctx.ensure("nested == direct: dimensions", eq(list(s2.dimensions), list(direct.dimensions)))
    ctx.ensure("nested == direct: shape", eq(list(s2.img.shape), list(direct.img.shape)))
    same_time_meta(ctx, "nested subregion", s2, img)
    if img.series:
        x = img.time_slice(1).subregion(tuple(slice(a1[m], b1[m]) for m in range(dim)))
        y = s1.time_slice(1)
        ctx.ensure("time_slice and subregion commute: metadata",
                   and_(eq(list(x.origin), list(y.origin)), eq(list(x.dimensions), list(y.dimensions)), eq(list(x.img.shape), list(y.img.shape)),
                        _eq_time(x.time, y.time), x.series == y.series, x.date == y.date))
        x = img.time_interval(slice(1, 3)).subregion(tuple(slice(a1[m], b1[m]) for m in range(dim)))
        y = s1.time_interval(slice(1, 3))
        ctx.ensure("time_interval and subregion commute: metadata",
                   and_(eq(list(x.origin), list(y.origin)), eq(list(x.dimensions), list(y.dimensions)), eq(list(x.img.shape), list(y.img.shape)),
                        _eq_time(x.time, y.time), x.series == y.series, x.date == y.date))


@ob("C02.compose", kind="L", samples=(0, 0), cite="arbitrary nesting (induction step over the placement contract)")
def c02_compose(ctx):
    """Lemma over the contract of C02.placement: offset embeddings compose.  If child1 voxel v sits at parent voxel v + s1
    with the parent's coordinate map c_p(v) = o + S v (S diagonal-signed voxel sizes) and child2 voxel v sits at child1 voxel
    v + s2, then child2 voxel v has the parent coordinate of v + s1 + s2 (per axis)."""
    import z3
    o, h, sg = z3.Real("o"), z3.Real("h"), z3.Real("sg")
    v, s1, s2 = z3.Int("v"), z3.Int("s1"), z3.Int("s2")
    cp = lambda x: o + sg * z3.ToReal(x) * h
    # contracts: c1(v) = cp(v + s1) for all v ; c2(v) = c1(v + s2) for all v
    c1 = z3.Function("c1", z3.IntSort(), z3.RealSort())
    c2 = z3.Function("c2", z3.IntSort(), z3.RealSort())
    x = z3.Int("x")
    ctx.assume(z3.ForAll([x], c1(x) == cp(x + s1)))
    ctx.assume(z3.ForAll([x], c2(x) == c1(x + s2)))
    ctx.ensure("c2(v) == c_parent(v + s1 + s2)", c2(v) == cp(v + s1 + s2))


def _stack_cases(tier):
    ks = (2, 3) if tier == "quick" else (2, 3, 4, 5)
    return product_cases(k=ks, mode=("append-rel-offset", "stack-dates", "stack-none", "append-dates", "append-dates-offset"), payload=("scalar", "vector"))


@ob("C02.stack", cases=_stack_cases, mods=MODS, funcs=FUNCS, samples=(1, 2),
    cite="stacking single-time images into a series and slicing it again returns the originals with their dates and relative times")
def c02_stack(ctx, k, mode, payload):
    shape = (2, 2)
    d = ctx.reals("d", 2, pos=True, sample=(0.1, 40.0))
    o = ctx.reals("o", 2, sample=(-100.0, 100.0))
    ref = T0 - timedelta(hours=2)
    imgs, arrs, dates, times, offs = [], [], [], [], []
    for i in range(k):
        full = list(shape) + ([] if payload == "scalar" else [3])
        arr = ctx.array(f"a{i}", full)
        kw = dict(space_dim=2, dimensions=list(d), origin=list(o), scalar=payload == "scalar")
        if mode in ("stack-dates", "append-dates", "append-dates-offset"):
            dt = T0 + timedelta(minutes=11 * i * i + 7 * i)
            kw.update(date=dt, reference_date=ref)
            dates.append(dt)
        elif mode == "append-rel-offset":
            t = ctx.real(f"t{i}", sample=(0.0, 100.0))
            kw.update(time=t)
            times.append(t)
        imgs.append(darsia.Image(arr, **kw))
        arrs.append(arr)
    if mode.startswith("stack"):
        series = darsia.stack([im.copy() for im in imgs])
        acc = [0] * k
    else:
        series = imgs[0].copy()
        acc = [0]
        run = 0
        for i in range(1, k):
            if mode in ("append-rel-offset", "append-dates-offset"):
                off = ctx.real(f"off{i}", sample=(0.0, 50.0))
                series.append(imgs[i], offset=off)
                acc.append(off)
            else:
                series.append(imgs[i])
                acc.append(0)
    ctx.ensure("series of k steps", series.series is True and series.time_num == k and series.img.shape[2] == k)

    def same(x, y):
        return x.shape == y.shape and (all(p is q for p, q in zip(x.flat, y.flat)) if ctx.sym else bool(np.all(x == y)))

    for i in range(k):
        s = series.time_slice(i)
        ctx.ensure(f"slice {i}: data of original {i}", same(s.img, arrs[i]))
        ctx.ensure(f"slice {i}: placement of the originals", and_(eq(list(s.origin), list(o)), eq(list(s.dimensions), list(d))))
        if dates and mode == "append-dates-offset":
            # dated images appended WITH an offset: the offset is honoured exactly as for undated images (relative time of the original + offset), dates kept
            ctx.ensure(f"slice {i}: date", s.date == dates[i])
            ctx.ensure(f"slice {i}: relative time == original's + offset (dated images, too)", eq(s.time, imgs[i].time + acc[i]))
        elif dates:
            ctx.ensure(f"slice {i}: date", s.date == dates[i])
            ctx.ensure(f"slice {i}: relative time == original's", s.time == imgs[i].time and s.time == (dates[i] - ref).total_seconds())
        elif mode == "append-rel-offset":
            ctx.ensure(f"slice {i}: relative time == original's + offset", eq(s.time, times[i] + acc[i]))
            ctx.ensure(f"slice {i}: no date", s.date is None)
        else:
            ctx.ensure(f"slice {i}: neither date nor time", s.date is None and s.time is None)
