"""C10 — every correction honours the copy / in-place / array / series contract (BaseCorrection workflow + concrete classes)."""
import contextlib
import io

import numpy as np

import darsia
from vf.core import and_, eq, ob, product_cases, same

MODS = ["darsia.corrections.basecorrection", "darsia.image.image", "darsia.corrections.color.illuminationcorrection"]
FUNCS = ["darsia.corrections.basecorrection:BaseCorrection.__call__", "darsia.corrections.basecorrection:BaseCorrection.correct_metadata",
         "darsia.image.image:Image.__init__", "darsia.image.image:Image.update_metadata", "darsia.image.image:Image.metadata",
         "darsia.corrections.color.illuminationcorrection:IlluminationCorrection.correct_array",
         "darsia.corrections.typecorrection:TypeCorrection.correct_array", "darsia.corrections.shape.rotation:RotationCorrection.correct_array",
         "darsia.corrections.shape.translation:TranslationCorrection.correct_array", "darsia.corrections.shape.curvature:CurvatureCorrection.correct_array",
         "darsia.corrections.shape.drift:DriftCorrection.correct_array", "darsia.corrections.shape.transformation:TransformationCorrection.correct_array"]


class Probe(darsia.BaseCorrection):
    """Stand-in for an arbitrary correction: correct_array is a fixed pure function F of the array (affine in the values,
    optionally changing the spatial shape), correct_metadata declares updates.  Records its calls."""

    def __init__(self, a, b, crop=False, meta=None, series_fn=False):
        self.a, self.b, self.crop, self.meta, self.calls = a, b, crop, meta or {}, []
        if series_fn:
            self.correct_array_series = self._series

    def F(self, arr):
        out = self.a * arr + self.b
        return out[:-1] if self.crop else out

    def correct_array(self, image):
        self.calls.append(("array", image))
        return self.F(image)

    def _series(self, image):
        self.calls.append(("series", image))
        return self.F(image)

    def correct_metadata(self, metadata={}):
        return dict(self.meta)

    def save(self, path): ...
    def load(self, path): ...


KINDS = ("array", "image", "scalar", "optical", "series", "vector-series")


def make_input(ctx, kind, name="x"):
    if kind == "array":
        return ctx.array(name, (2, 3)), None
    shape = {"image": (3, 2, 2), "scalar": (3, 2), "optical": (3, 2, 3), "series": (3, 2, 2), "vector-series": (3, 2, 2, 3),
             # time slices that have an axis of length one besides the time axis (a single row / column of voxels, a single component)
             "series-col": (3, 1, 2), "series-row": (1, 3, 2), "vector-series-col": (3, 1, 2, 3), "vector1-series": (3, 2, 2, 1),
             # space-time images in three space dimensions: the time axis is axis 3 (depth x rows x cols x time [x components]); depth != number of time steps, and equal to it
             "series-3d": (3, 2, 3, 2), "series-3d-cube": (2, 3, 2, 2), "vector-series-3d": (3, 2, 2, 2, 2)}[kind]
    arr = ctx.array(name, shape, sample=(0.0, 1.0))
    sd = 3 if kind.endswith("-3d") or kind.endswith("-3d-cube") else 2
    d = ctx.reals("d" + name, sd, pos=True, sample=(0.5, 4.0))
    o = ctx.reals("o" + name, sd, sample=(-3.0, 3.0))
    kw = dict(dimensions=list(d), origin=list(o), name="probe")
    if sd == 3:
        return darsia.Image(arr, space_dim=3, scalar=kind != "vector-series-3d", series=True, time=[0.0, 2.5], **kw), arr
    if kind == "image":
        img = darsia.Image(arr, space_dim=2, scalar=False, **kw)
    elif kind == "scalar":
        img = darsia.ScalarImage(arr, **kw)
    elif kind == "optical":
        img = darsia.OpticalImage(arr, **kw)
    elif kind in ("series", "series-col", "series-row"):
        img = darsia.ScalarImage(arr, series=True, time=[0.0, 2.5], **kw)
    elif kind == "vector1-series":
        img = darsia.Image(arr, space_dim=2, scalar=False, series=True, time=[0.0, 2.5], **kw)
    else:
        img = darsia.OpticalImage(arr, series=True, time=[0.0, 2.5], **kw)
    return img, arr


def meta_equal(m1, m2):
    if set(m1) != set(m2):
        return False
    oks = []
    for k in m1:
        a, b = m1[k], m2[k]
        if isinstance(a, (list, np.ndarray)) and not isinstance(a, str) and k in ("dimensions", "origin"):
            oks.append(eq(list(a), list(b)))
        elif k == "time" and isinstance(a, list):
            oks.append(eq(a, b))
        else:
            oks.append(a == b)
    return and_(*oks)


def snapshot_meta(img):
    m = dict(img.metadata())
    m["dimensions"] = list(m["dimensions"])
    m["origin"] = list(m["origin"])
    return m


THIN_KINDS = ("series-col", "series-row", "vector-series-col", "vector1-series", "series-3d", "series-3d-cube", "vector-series-3d")


@ob("C10.workflow", cases=product_cases(kind=KINDS, overwrite=(False, True), variant=("plain", "crop+meta", "series-fn"))
    + [dict(kind=k, overwrite=o, variant=v) for k in THIN_KINDS for o in (False, True) for v in ("plain", "crop+meta") if not (k == "series-row" and v == "crop+meta")]
    # the workflow knows nothing about a correction's own attributes: one that calls itself inactive is still applied through correct_array
    + [dict(kind=k, overwrite=o, variant="inactive-attr") for k in ("array", "scalar", "optical", "series") for o in (False, True)], mods=MODS, funcs=FUNCS, samples=(1, 3),
    cite="applying it to an image without overwrite leaves the input untouched and returns an image of the same kind whose pixel data "
         "equals the correction applied to the raw array and whose metadata is the input's plus the correction's declared updates; "
         "with overwrite it modifies and returns the very same object with the same result. On a time series the result equals applying "
         "the correction to each time slice separately",
    note="correct_array / correct_metadata are an arbitrary pure affine function of the values with symbolic coefficients (optionally shape changing)")
def c10_workflow(ctx, kind, overwrite, variant):
    a, b = ctx.real("a", sample=(-2.0, 2.0)), ctx.real("b", sample=(-1.0, 1.0))
    newd = ctx.reals("nd", 3 if "-3d" in kind else 2, pos=True, sample=(0.5, 4.0))
    meta = {"dimensions": list(newd), "name": "corrected"} if variant == "crop+meta" else {}
    P = Probe(a, b, crop=variant == "crop+meta", meta=meta, series_fn=variant == "series-fn")
    if variant == "inactive-attr":
        P.active = False
    inp, arr = make_input(ctx, kind)
    if kind == "array":
        snap = inp.copy()
        out = P(inp, overwrite=overwrite)
        ctx.ensure("array in, array out: F(array)", and_(eq(out, P.F(snap)), isinstance(out, np.ndarray)))
        ctx.ensure("caller's array content untouched", same(inp, snap))
        if not overwrite:
            ctx.ensure("correct_array received a copy, not the caller's array", P.calls[0][1] is not inp)
        return
    meta_before = snapshot_meta(inp)
    series = inp.series
    out = P(inp, overwrite=overwrite)
    # expected pixels
    if series and variant == "series-fn":
        want = P.F(arr)
    elif series:
        sl = [arr[..., t] if inp.scalar else arr[..., t, :] for t in range(2)]
        want = np.stack([P.F(s) for s in sl], axis=inp.space_dim)
    else:
        want = P.F(arr)
    want_meta = dict(meta_before)
    want_meta.update(meta)
    ctx.ensure("pixel data == correction applied to the raw array (per time slice for series)", eq(out.img, want))
    ctx.ensure("metadata == input's metadata + the correction's declared updates", meta_equal(snapshot_meta(out), want_meta))
    ctx.ensure("same kind of image", type(out) is type(inp))
    if overwrite:
        ctx.ensure("overwrite: the very same object is returned", out is inp)
    else:
        ctx.ensure("no overwrite: a new object is returned", out is not inp)
        ctx.ensure("no overwrite: input pixel array is the same object with the same content", inp.img is arr and same(inp.img, arr))
        ctx.ensure("no overwrite: input metadata untouched", meta_equal(snapshot_meta(inp), meta_before))
        ctx.ensure("no overwrite: result does not share its array with the input", out.img is not arr)
    if series and variant != "series-fn":
        ctx.ensure("series: correct_array called once per time slice, in order", [c[0] for c in P.calls] == ["array", "array"])


@ob("C10.ctor", cases=product_cases(kind=("scalar", "optical"), n=(1, 2, 3)), mods=MODS, funcs=FUNCS, samples=(1, 3),
    cite="corrections applied in order at image construction")
def c10_ctor(ctx, kind, n):
    coefs = [(ctx.real(f"a{i}", sample=(-2.0, 2.0)), ctx.real(f"b{i}", sample=(-1.0, 1.0))) for i in range(n)]
    Ps = [Probe(a, b) for a, b in coefs]
    shape = (3, 2) if kind == "scalar" else (3, 2, 3)
    arr = ctx.array("x", shape, sample=(0.0, 1.0))
    cls = darsia.ScalarImage if kind == "scalar" else darsia.OpticalImage
    img = cls(arr, transformations=[Ps[0], None] + Ps[1:], dimensions=[1.0, 2.0])
    want = arr
    for a, b in coefs:
        want = a * want + b
    ctx.ensure("pixel data == last(...(first(raw array))) in list order (None entries skipped)", eq(img.img, want))
    ctx.ensure("each correction called exactly once", all(len(p.calls) == 1 for p in Ps))
    ctx.ensure("raw array untouched", same(arr, arr) and img.img is not arr)


@ob("C10.illumination", cases=product_cases(colorspace=("rgb", "hsl-scalar"), form=("image", "series-slice")), mods=MODS, funcs=FUNCS, samples=(1, 3),
    cite="IlluminationCorrection: pixel data equals the correction applied to the raw array; neutral parameters leave pixel values unchanged; input untouched")
def c10_illumination(ctx, colorspace, form):
    shape = (2, 2)
    ic = darsia.IlluminationCorrection()
    ic.colorspace = colorspace
    nscal = 3 if colorspace == "rgb" else 1
    scal = [ctx.array(f"s{i}", shape, pos=True, sample=(0.5, 2.0)) for i in range(nscal)]
    ic.local_scaling = [darsia.ScalarImage(s, dimensions=[1.0, 1.0]) for s in scal]
    base = ctx.array("x", (2, 2, 2, 3) if form == "series-slice" else (2, 2, 3), sample=(0.0, 1.0))
    arg = base[:, :, 1, :] if form == "series-slice" else base           # a view of the caller's series for the slice form
    snapshot = list(base.flat)
    out = ic.correct_array(arg)
    want = np.empty((2, 2, 3), dtype=object)
    for v in np.ndindex(2, 2):
        for c in range(3):
            want[v + (c,)] = arg[v + (c,)] * scal[c if colorspace == "rgb" else 0][v]
    ctx.ensure("correct_array == channel-wise local scaling", eq(out, want))
    ctx.ensure("argument (and the series it is a view of) not written", all(p is q for p, q in zip(base.flat, snapshot)) if ctx.sym else bool(np.all(np.asarray(snapshot, dtype=float) == base.ravel())))
    ones = darsia.IlluminationCorrection()
    ones.colorspace = colorspace
    ones.local_scaling = [darsia.ScalarImage(np.ones(shape), dimensions=[1.0, 1.0]) for _ in range(nscal)]
    ctx.ensure("unit scaling is the identity", eq(ones.correct_array(arg), arg))


# ---- concrete corrections, bounded (OpenCV / skimage based) ----------------------------------------------------------------------

def _build(name, rng):
    H, W = 12, 14
    with contextlib.redirect_stdout(io.StringIO()):
        if name == "type-float32":
            return darsia.TypeCorrection(np.float32), None
        if name == "type-uint8":
            return darsia.TypeCorrection(np.uint8), None
        if name == "rotation":
            return darsia.RotationCorrection(anchor=[5, 6], rotations=[0.3]), darsia.RotationCorrection(anchor=[5, 6], rotations=[0.0])
        if name == "translation":
            return None, darsia.TranslationCorrection()
        if name == "curvature":
            cfg = lambda v: {"bulge": {"horizontal_bulge": v, "vertical_bulge": v / 2, "horizontal_stretch": v / 3, "vertical_stretch": 0.0,
                                       "horizontal_center_offset": 0, "vertical_center_offset": 0}}
            return darsia.CurvatureCorrection(config=cfg(2e-4)), darsia.CurvatureCorrection(config=cfg(0.0))
        if name == "curvature-crop":
            return darsia.CurvatureCorrection(config={"crop": {"pts_src": [[1, 2], [10, 2], [10, 12], [1, 12]], "width": 0.9, "height": 0.5}}), None
        if name == "drift":
            base = (255 * rng.random((H, W, 3))).astype(np.uint8)
            return None, darsia.DriftCorrection(base, config={"active": False})
        if name == "illumination":
            ic = darsia.IlluminationCorrection()
            ic.colorspace = "rgb"
            ic.local_scaling = [darsia.ScalarImage(0.5 + rng.random((H, W)), dimensions=[1.0, 1.0]) for _ in range(3)]
            one = darsia.IlluminationCorrection()
            one.colorspace = "rgb"
            one.local_scaling = [darsia.ScalarImage(np.ones((H, W)), dimensions=[1.0, 1.0]) for _ in range(3)]
            return ic, one
        if name in ("affine", "perspective"):
            src = darsia.ScalarImage(np.zeros((H, W)), dimensions=[1.2, 1.4])
            pts = darsia.make_voxel([[0, 0], [H, 0], [H, W], [0, W]])
            if name == "affine":
                T = darsia.AffineTransformation(2)
                T.set_dtype(pts, pts)
                shift = darsia.AffineTransformation(2)
                shift.set_dtype(pts, pts)
                shift.set_parameters(np.array([2.0, -1.0]), 1.0, None)
                return (darsia.TransformationCorrection(src.coordinatesystem, src.coordinatesystem, shift),
                        darsia.TransformationCorrection(src.coordinatesystem, src.coordinatesystem, T))
            dst = darsia.ScalarImage(np.zeros((10, 12)), dimensions=[1.0, 1.2])
            g = darsia.GeneralizedPerspectiveCorrection(src.coordinatesystem, dst.coordinatesystem, pts,
                                                        darsia.make_voxel([[0, 0], [10, 0], [10, 12], [0, 12]]), {"maxiter": 20, "tol": 1e-2})
            return g, None
    raise ValueError(name)


CLASSES = ("type-float32", "type-uint8", "rotation", "translation", "curvature", "curvature-crop", "drift", "illumination", "affine", "perspective")
IMG_KINDS = ("array", "scalar", "optical", "series")


def _mk(kind, arr):
    d = [1.2, 1.4]
    if kind == "array":
        return arr
    if kind == "scalar":
        return darsia.ScalarImage(arr, dimensions=list(d))
    if kind == "optical":
        return darsia.OpticalImage(arr, dimensions=list(d))
    return darsia.OpticalImage(arr, dimensions=list(d), series=True, time=[0.0, 1.0, 5.0])


def _same_meta(m1, m2):
    for k in m1:
        a, b = m1[k], m2.get(k, "<missing>")
        try:
            if not bool(np.all(np.asarray(a) == np.asarray(b))):
                return False
        except Exception:
            if a != b:
                return False
    return set(m1) == set(m2)


@ob("C10.classes", kind="B", cases=product_cases(cls=CLASSES, kind=IMG_KINDS), funcs=FUNCS, samples=(1, 2),
    cite="For each correction class ... {array, scalar image, optical image, series} x {overwrite on/off} x random shapes and dtypes; neutral parameters leave pixel values unchanged",
    note="bounded: the real OpenCV / skimage based corrections on seeded random images (12 x 14, float64 and uint8)")
def c10_classes(ctx, cls, kind):
    seed = ctx.rng.randrange(1 << 30)
    rng = np.random.default_rng(seed)
    active, neutral = _build(cls, rng)
    ref_active, ref_neutral = _build(cls, np.random.default_rng(seed))          # independent objects for the reference values
    colour_only = cls in ("illumination", "drift")
    scalar_only = cls in ()
    if (colour_only and kind == "scalar"):
        ctx.ensure("combination not applicable", True)
        return
    H, W = 12, 14
    shape = {"array": (H, W, 3) if colour_only else (H, W), "scalar": (H, W), "optical": (H, W, 3), "series": (H, W, 3, 3)}[kind]
    dtypes = [np.float64] if cls.startswith("type") is False else [np.float64, np.uint8]
    for dt in dtypes:
        raw = rng.random(shape) if dt is np.float64 else (255 * rng.random(shape)).astype(np.uint8)
        for corr, rcorr, label in ((active, ref_active, "active"), (neutral, ref_neutral, "neutral")):
            if corr is None:
                continue
            ctx.tick()
            if kind == "series":
                ref = np.stack([np.array(rcorr.correct_array(raw[:, :, t, :].copy())) for t in range(3)], axis=2)
            else:
                arg = raw.copy()
                ref = np.array(rcorr.correct_array(arg))
                ctx.ensure(f"{label}/{dt.__name__}: correct_array does not write its argument", bool(np.array_equal(arg, raw)))
                first = corr.correct_array(raw.copy())
                keep = np.array(first)
                corr.correct_array(np.ascontiguousarray(raw[::-1]).copy())
                ctx.ensure(f"{label}/{dt.__name__}: an earlier result is not altered by a later call of the same correction", bool(np.array_equal(first, keep)))
            for overwrite in (False, True):
                data = raw.copy()
                inp = _mk(kind, data)
                meta0 = None if kind == "array" else {k: (list(v) if k in ("dimensions",) else v) for k, v in inp.metadata().items()}
                out = corr(inp, overwrite=overwrite)
                px = out if kind == "array" else out.img
                ctx.ensure(f"{label}/{dt.__name__}/overwrite={overwrite}: pixels == correct_array(raw) (per slice for series)",
                           px.shape == ref.shape and bool(np.allclose(np.asarray(px, dtype=float), np.asarray(ref, dtype=float), rtol=1e-12, atol=1e-12)))
                if kind != "array":
                    upd = corr.correct_metadata(inp.metadata())
                    want = dict(meta0)
                    want.update(upd)
                    ctx.ensure(f"{label}/overwrite={overwrite}: metadata == input's + declared updates", _same_meta(want, out.metadata()))
                    ctx.ensure(f"{label}/overwrite={overwrite}: same kind of image", type(out) is type(inp))
                    if overwrite:
                        ctx.ensure(f"{label}: overwrite returns the very same object", out is inp)
                    else:
                        ctx.ensure(f"{label}: without overwrite the input pixels are untouched", bool(np.array_equal(inp.img, raw)) and inp.img is data)
                        ctx.ensure(f"{label}: without overwrite the input metadata is untouched", _same_meta(meta0, inp.metadata()))
                        ctx.ensure(f"{label}: a new object is returned", out is not inp)
                elif not overwrite:
                    ctx.ensure(f"{label}: array without overwrite leaves the caller's array untouched", bool(np.array_equal(data, raw)))
            if label == "neutral" and kind != "series":
                got = corr.correct_array(raw.copy())
                ctx.ensure(f"neutral parameters leave pixel values unchanged ({cls})", got.shape == raw.shape and bool(np.allclose(np.asarray(got, dtype=float), raw.astype(float), atol=1e-12)))


@ob("C10.rotation_neutral", cases=[dict(shape=s, payload=p) for s in [(3, 5), (5, 3), (2, 3, 7), (4, 3, 6), (5, 2, 4), (3, 3, 3), (1, 2, 3)] for p in ("scalar", "vector")],
    mods=["darsia.corrections.shape.rotation"], funcs=["darsia.corrections.shape.rotation:RotationCorrection.correct_array", "darsia.corrections.shape.rotation:RotationCorrection.__init__"],
    samples=(1, 2),
    cite="a correction configured with neutral parameters (zero angle ...) leaves pixel values unchanged",
    note="token data: a zero-angle RotationCorrection in 2-D and 3-D returns every voxel where it was, for non-square / non-cubic arrays in every axis order (extent of the third axis "
         "larger or smaller than the second), scalar and multi-component; the argument is not written (after seed C10_i: a clip bound of the 3-D branch taken from the wrong axis)")
def c10_rotation_neutral(ctx, shape, payload):
    dim = len(shape)
    full = tuple(shape) + ((2,) if payload == "vector" else ())
    arr = ctx.array("a", full)
    keep = arr.copy()
    anchor = [n // 2 for n in shape]
    rot = darsia.RotationCorrection(anchor=anchor, rotations=[0.0]) if dim == 2 else darsia.RotationCorrection(anchor=anchor, rotations=[(0.0, "x"), (0.0, "z")])
    out = rot.correct_array(arr)
    tok = lambda x, y: x.shape == y.shape and (all(p is q for p, q in zip(x.flat, y.flat)) if ctx.sym else bool(np.all(x == y)))
    ctx.ensure("zero rotation: every voxel (and component) stays where it was", tok(np.asarray(out), keep))
    ctx.ensure("the array handed in is not written", tok(arr, keep))
    # a different anchor does not matter for the neutral rotation
    rot2 = darsia.RotationCorrection(anchor=[0] * dim, rotations=[0.0]) if dim == 2 else darsia.RotationCorrection(anchor=[0] * dim, rotations=[(0.0, "y")])
    ctx.ensure("zero rotation about another anchor / axis: unchanged as well", tok(np.asarray(rot2.correct_array(arr)), keep))
