"""C14 — signal-to-data models obey their defining algebra."""
import itertools

import numpy as np

import darsia
from vf.core import and_, eq, implies, ite, le, not_, ob, or_, product_cases
from vf.sym import sym_max, sym_min

MODS = ["darsia.signals.models.clipmodel", "darsia.signals.models.linearmodel", "darsia.signals.models.combinedmodel",
        "darsia.signals.models.staticthresholdmodel", "darsia.utils.approximations"]
FUNCS = ["darsia.signals.models.clipmodel:ClipModel.__call__", "darsia.signals.models.clipmodel:ClipModel.update_model_parameters",
         "darsia.signals.models.linearmodel:ScalingModel.__call__", "darsia.signals.models.linearmodel:LinearModel.__call__",
         "darsia.signals.models.linearmodel:LinearModel.update_model_parameters",
         "darsia.signals.models.linearmodel:HeterogeneousLinearModel.__call__",
         "darsia.signals.models.linearmodel:HeterogeneousLinearModel.update_model_parameters",
         "darsia.signals.models.combinedmodel:CombinedModel.__call__", "darsia.signals.models.combinedmodel:CombinedModel.update_model_parameters",
         "darsia.signals.models.staticthresholdmodel:StaticThresholdModel.__call__",
         "darsia.signals.models.staticthresholdmodel:StaticThresholdModel._call_homogeneous",
         "darsia.signals.models.staticthresholdmodel:StaticThresholdModel._call_heterogeneous",
         "darsia.utils.approximations:PolynomialApproximationSpace.basis", "darsia.utils.approximations:PolynomialApproximationSpace.size",
         "darsia.utils.kernels:BaseKernel.linear_combination", "darsia.utils.kernels:GaussianKernel.linear_combination",
         "darsia.utils.kernels:LinearKernel.linear_combination", "darsia.signals.models.kernelinterpolation:KernelInterpolation.setup_kernel_problem"]
SHAPES = {"pixels": (3,), "2d": (2, 2), "3d": (2, 1, 2)}


def sig(ctx, form, name="x"):
    return ctx.array(name, SHAPES[form], sample=(-2.0, 3.0))


@ob("C14.clip", cases=product_cases(form=tuple(SHAPES) + ("image",), upper=("both", "lower-only")), mods=MODS, funcs=FUNCS, samples=(2, 5),
    cite="Clipping confines values to its bounds and is idempotent")
def c14_clip(ctx, form, upper):
    lo = ctx.real("lo", sample=(-1.0, 1.0))
    hi = ctx.real("hi", sample=(1.0, 2.0)) if upper == "both" else None
    if hi is not None:
        ctx.assume(lo <= hi)
    m = darsia.ClipModel(**({"min value": lo, "max value": hi}))
    if form == "image":
        arr = sig(ctx, "2d")
        x = darsia.Image(arr, space_dim=2, scalar=True)
        out = m(x)
        y, y2 = out.img, m(out).img
        ctx.ensure("Image in, new Image out, input untouched", isinstance(out, darsia.Image) and out is not x and x.img is arr)
    else:
        arr = sig(ctx, form)
        y = m(arr)
        y2 = m(y)
    want = np.empty(arr.shape, dtype=object)
    for i in np.ndindex(*arr.shape):
        v = sym_max(arr[i], lo)
        want[i] = sym_min(v, hi) if hi is not None else v
    ctx.ensure("clip(x) == min(max(x, lo), hi)", eq(y, want))
    ctx.ensure("values confined to the bounds", and_(*[and_(le(lo, y[i]), le(y[i], hi) if hi is not None else True) for i in np.ndindex(*arr.shape)]))
    ctx.ensure("idempotent", eq(y2, y))
    # parameter update by vector
    p = ctx.reals("p", 2, sample=(-1.0, 2.0))
    m.update_model_parameters(np.array(p))
    ctx.ensure("update_model_parameters sets (min, max)", and_(eq(m._min_value, p[0]), eq(m._max_value, p[1])))
    m.update_model_parameters(np.array(p[:1]), ["max_value"])
    ctx.ensure("dofs=['max_value'] consumes one value", eq(m._max_value, p[0]))


@ob("C14.linear", cases=product_cases(form=tuple(SHAPES), kind=("scaling", "linear")), mods=MODS, funcs=FUNCS, samples=(2, 5),
    cite="scaling and linear models are affine in the signal")
def c14_linear(ctx, form, kind):
    s = ctx.real("s", sample=(-2.0, 2.0))
    o = ctx.real("o", sample=(-1.0, 1.0))
    m = darsia.ScalingModel(scaling=s) if kind == "scaling" else darsia.LinearModel(scaling=s, offset=o)
    off = 0 if kind == "scaling" else o
    x, y = sig(ctx, form, "x"), sig(ctx, form, "y")
    # ScalingModel treats a scaling within np.isclose's default tolerance of one AS one (designed shortcut, found by the guard probes): the
    # specified value is then the signal itself; everywhere else it is scaling * x exactly
    unit = kind == "scaling" and not ctx.sym and bool(np.isclose(s, 1.0))
    ctx.ensure("model(x) == scaling * x + offset  (a scaling model whose scaling is within isclose tolerance of 1 returns x)", eq(m(x), x if unit else s * x + off))
    a = ctx.real("a", sample=(-1.0, 2.0))
    ctx.ensure("affine: model(a x + (1-a) y) == a model(x) + (1-a) model(y)", eq(m(a * x + (1 - a) * y), a * m(x) + (1 - a) * m(y)))
    p = ctx.reals("p", 2, sample=(-1.0, 2.0))
    if kind == "linear":
        for dofs in (None, "all", ["scaling", "offset"]):
            m.update_model_parameters(np.array(p), dofs)
            ctx.ensure(f"update_model_parameters(dofs={dofs!r}) sets (scaling, offset)", eq(m(x), p[0] * x + p[1]))
        m.update_model_parameters(np.array([s]), ["offset"])
        ctx.ensure("dofs=['offset'] consumes one value", eq(m(x), p[0] * x + s))
    else:
        for dofs in (None, "all", ["scaling"]):
            m.update_model_parameters(np.array(p), dofs)
            unit_p = not ctx.sym and bool(np.isclose(p[0], 1.0))
            ctx.ensure(f"update_model_parameters(dofs={dofs!r}) sets the scaling", eq(m(x), x if unit_p else p[0] * x))


def _mk(ctx, kind, tag):
    if kind == "linear":
        return darsia.LinearModel(scaling=ctx.real("s" + tag, sample=(-2.0, 2.0)), offset=ctx.real("o" + tag, sample=(-1.0, 1.0))), 2
    if kind == "scaling":
        return darsia.ScalingModel(scaling=ctx.real("s" + tag, sample=(-2.0, 2.0))), 1
    lo = ctx.real("lo" + tag, sample=(-1.0, 0.5))
    hi = ctx.real("hi" + tag, sample=(0.5, 2.0))
    return darsia.ClipModel(**{"min value": lo, "max value": hi}), 2


def _combos(tier):
    kinds = ("linear", "scaling", "clip")
    seqs = list(itertools.product(kinds, repeat=2)) + [("linear", "clip", "scaling"), ("clip", "linear", "clip")]
    if tier == "thorough":
        seqs = list(itertools.product(kinds, repeat=2)) + list(itertools.product(kinds, repeat=3))
    return [dict(parts="/".join(s)) for s in seqs]


def _set_and_read(model, kind):
    if kind == "linear":
        return [model._scaling, model._offset]
    if kind == "scaling":
        return [model._scaling]
    return [model._min_value, model._max_value]


@ob("C14.combined", cases=_combos, mods=MODS, funcs=FUNCS, samples=(2, 4),
    cite="a combined model equals the sequential composition of its parts and distributes a flat parameter vector to them in order")
def c14_combined(ctx, parts):
    kinds = parts.split("/")
    models, sizes = zip(*[_mk(ctx, k, str(i)) for i, k in enumerate(kinds)])
    C = darsia.CombinedModel(list(models))
    x = sig(ctx, "2d")
    seq = x
    for m in models:
        seq = m(seq)
    ctx.ensure("combined(x) == last(...(first(x)))", eq(C(x), seq))
    ctx.ensure("number of parameters is the sum over the parts", C.num_parameters == sum(sizes))
    p = np.array(ctx.reals("p", sum(sizes), sample=(-1.0, 2.0)))
    for dofs in (None, "all"):
        C.update_model_parameters(p, dofs)
        got = [v for m, k in zip(models, kinds) for v in _set_and_read(m, k)]
        ctx.ensure(f"flat parameter vector distributed to the parts in order (dofs={dofs!r})", eq(got, list(p)))
    ctx.ensure("parts are addressable by position", all(C[i] is models[i] for i in range(len(models))))


@ob("C14.routing_subset", cases=[dict(parts="linear/linear"), dict(parts="linear/clip"), dict(parts="scaling/linear")], mods=MODS, funcs=FUNCS, samples=(1, 2),
    cite="distributes a flat parameter vector to them in order ... every subset of updatable parameters")
def c14_routing_subset(ctx, parts):
    kinds = parts.split("/")
    models, sizes = zip(*[_mk(ctx, k, str(i)) for i, k in enumerate(kinds)])
    C = darsia.CombinedModel(list(models))
    first = {"linear": ["offset"], "scaling": ["scaling"], "clip": ["max_value"]}
    dofs = [(i, first[k]) for i, k in enumerate(kinds)]
    p = np.array(ctx.reals("p", len(dofs), sample=(-1.0, 2.0)))
    gaps = any(sizes[i] != 1 for i in range(len(kinds) - 1))
    ctx.witness("subset_dofs_with_multi_parameter_model_before_last", gaps)
    C.update_model_parameters(p, dofs)
    read = {"linear": lambda m: m._offset, "scaling": lambda m: m._scaling, "clip": lambda m: m._max_value}
    ctx.ensure("one value per selected dof, consumed in order", eq([read[k](m) for m, k in zip(models, kinds)], list(p)))


LABELS = {"2x3-2": np.array([[0, 1, 1], [0, 0, 1]], dtype=np.uint8), "3x2-3": np.array([[0, 2], [5, 5], [2, 0]], dtype=np.uint8),
          "2x2-1": np.array([[7, 7], [7, 7]], dtype=np.uint8), "1x5-5": np.array([[4, 3, 2, 1, 0]], dtype=np.uint8)}


@ob("C14.heterogeneous", cases=product_cases(labels=tuple(LABELS)), mods=MODS, funcs=FUNCS, samples=(2, 4),
    cite="label-wise (heterogeneous) models agree on every labelled region with the corresponding homogeneous model")
def c14_heterogeneous(ctx, labels):
    lab = LABELS[labels]
    uniq = list(np.unique(lab))
    s = np.array(ctx.reals("s", len(uniq), sample=(-2.0, 2.0)))
    o = np.array(ctx.reals("o", len(uniq), sample=(-1.0, 1.0)))
    H = darsia.HeterogeneousLinearModel(lab.copy(), scaling=s, offset=o)
    x = ctx.array("x", lab.shape, sample=(-2.0, 3.0))
    out = H(x)
    want = np.empty(lab.shape, dtype=object)
    for i in np.ndindex(*lab.shape):
        k = uniq.index(lab[i])
        want[i] = darsia.LinearModel(scaling=s[k], offset=o[k])(x)[i]
    ctx.ensure("on every labelled region: heterogeneous(x) == LinearModel(scaling[label], offset[label])(x)", eq(out, want))
    ctx.ensure("second call (label cache) gives the same", eq(H(x), want))
    p = np.array(ctx.reals("p", 2 * len(uniq), sample=(-1.0, 2.0)))
    H.update_model_parameters(p)
    ctx.ensure("parameter vector = (scalings per label, offsets per label)", and_(eq(list(H._scaling), list(p[:len(uniq)])), eq(list(H._offset), list(p[len(uniq):]))))


@ob("C14.threshold", cases=product_cases(mode=("homogeneous", "homogeneous-lower", "heterogeneous", "heterogeneous-lower"), masked=(False, True)), mods=MODS, funcs=FUNCS, samples=(2, 5),
    cite="static thresholding returns exactly the voxels strictly between its bounds inside the mask")
def c14_threshold(ctx, mode, masked):
    lab = LABELS["2x3-2"]
    x = ctx.array("x", lab.shape, sample=(-1.0, 2.0))
    mask = np.array([[True, False, True], [True, True, False]]) if masked else None
    if mode.startswith("homogeneous"):
        lo = ctx.real("lo", sample=(-0.5, 0.8))
        hi = ctx.real("hi", sample=(0.8, 1.5)) if mode == "homogeneous" else None
        M = darsia.StaticThresholdModel(lo, hi) if ctx.sym else darsia.StaticThresholdModel(float(lo), None if hi is None else float(hi))
        los, his = {0: lo, 1: lo}, {0: hi, 1: hi}
    else:
        lo = ctx.reals("lo", 2, sample=(-0.5, 0.8))
        hi = ctx.reals("hi", 2, sample=(0.8, 1.5)) if mode == "heterogeneous" else None
        M = darsia.StaticThresholdModel(list(lo), None if hi is None else list(hi), labels=lab.copy())
        los, his = {0: lo[0], 1: lo[1]}, {0: None if hi is None else hi[0], 1: None if hi is None else hi[1]}
    out = M(x, mask) if masked else M(x)
    oks = []
    for i in np.ndindex(*lab.shape):
        k = int(lab[i])
        inside = x[i] > los[k]
        if his[k] is not None:
            inside = and_(inside, x[i] < his[k])
        if masked:
            inside = and_(inside, bool(mask[i]))
        oks.append(eq(out[i], inside) if ctx.sym else bool(out[i]) == bool(inside))
    ctx.ensure("output[v] <=> lower < x[v] < upper (strict) and mask[v]", and_(*oks))


@ob("C14.polynomial", cases=[dict(degree=d) for d in range(0, 5)], mods=MODS, funcs=FUNCS, samples=(1, 2),
    cite="a polynomial approximation space of degree d spans exactly the polynomials of total degree at most d")
def c14_polynomial(ctx, degree):
    P = darsia.PolynomialApproximationSpace(degree)
    want = sorted((i, j) for i in range(degree + 1) for j in range(degree + 1 - i))
    ctx.ensure("dimension is (d+1)(d+2)/2", P.size == len(want))
    xy = np.array([[ctx.real("x", sample=(0.5, 2.0)), ctx.real("y", sample=(0.5, 2.0))]])
    # identify each basis function as a monomial x^i y^j by evaluating it on a symbolic point and on probe points 2, 3
    probe = np.array([[2.0, 3.0]])
    got = []
    for k in range(P.size):
        val = float(P.basis(probe, k)[0])
        ij = [(i, j) for i in range(degree + 2) for j in range(degree + 2) if abs(2.0 ** i * 3.0 ** j - val) < 1e-9]
        got.append(ij[0] if len(ij) == 1 else None)
        if got[-1] is not None:
            i, j = got[-1]
            ctx.ensure(f"basis {k} is the monomial x^{i} y^{j} at every point", eq(P.basis(xy, k)[0], xy[0, 0] ** i * xy[0, 1] ** j))
    ctx.ensure("the basis is exactly the set of monomials x^i y^j with i + j <= d (each once)", None not in got and sorted(got) == want)
    vals = P(xy)
    ctx.ensure("__call__ evaluates all basis functions in order", len(vals) == P.size and and_(*[eq(vals[k][0], P.basis(xy, k)[0]) for k in range(P.size)]))


@ob("C14.kernel_sum", cases=product_cases(kernel=("gaussian", "linear"), nsup=(1, 2, 4)), mods=["darsia.utils.kernels"], funcs=FUNCS, samples=(1, 2), skip=("GaussianKernel.linear_combination", "LinearKernel.linear_combination"),
    cite="Kernel interpolation ... plain kernel sum", note="BaseKernel.linear_combination (plain sum) with the kernel as the real __call__; Gaussian exp is concrete (supports concrete)")
def c14_kernel_sum(ctx, kernel, nsup):
    import darsia.utils.kernels as K
    rng = np.random.default_rng(nsup)
    sup = rng.random((nsup, 3))
    w = np.array(ctx.reals("w", nsup, sample=(-1.0, 1.0)))
    k = K.GaussianKernel(1.5) if kernel == "gaussian" else K.LinearKernel(0.25)
    x = rng.random((4, 3))
    out = K.BaseKernel.linear_combination(k, x, sup, w)
    want = [sum(w[n] * float(k(x[r], sup[n])) for n in range(nsup)) for r in range(4)]
    ctx.ensure("linear_combination(x) == sum_n w_n k(x, s_n)", eq(list(out), want))
    ctx.ensure("no supports: zero", eq(K.BaseKernel.linear_combination(k, x, sup[:0], w[:0]), np.zeros_like(x)))


def _jit_identity(ctx):
    """numba.jit(signatures, **options) -> decorator that returns the Python function itself: the body numba compiles is executed by CPython on symbols"""
    def jit(*a, **k):
        ctx.stub_used("numba.jit(...)(f) computes what the Python function f computes (the compiled float32 kernels themselves are exercised by C14.kernel_numba)")
        if len(a) == 1 and callable(a[0]) and not k:
            return a[0]
        return lambda f: f
    return jit


@ob("C14.kernel_accel", cases=product_cases(kernel=("linear", "gaussian"), form=("pixel", "pixels", "image"), nsup=(1, 2, 3)), mods=["darsia.utils.kernels"], funcs=FUNCS, samples=(1, 2),
    stubs={"numba.jit": _jit_identity}, budget={"abstract": True, "timeout_ms": 20000}, tol=1e-6,
    cite="Kernel interpolation ... its accelerated evaluation agrees with the plain kernel sum for every supported signal shape",
    note="the Python bodies of the numba kernels (LinearKernel / GaussianKernel.linear_combination) executed on symbolic signals, supports, weights and kernel parameter: equal to "
         "sum_n w_n k(x, s_n) with k the kernel's own __call__; exp is an uninterpreted positive function (congruence only)")
def c14_kernel_accel(ctx, kernel, form, nsup):
    import darsia.utils.kernels as K
    c = 2
    shape = {"pixel": (c,), "pixels": (2, c), "image": (2, 3, c)}[form]            # rows != cols: a transposed result is not the result
    x = ctx.array("x", shape, sample=(0.0, 1.0))
    sup = ctx.array("s", (nsup, c), sample=(0.0, 1.0))
    w = ctx.array("w", (nsup,), sample=(-1.0, 1.0))
    p = ctx.real("p", pos=True, sample=(0.25, 2.0))
    if kernel == "linear":
        k = K.LinearKernel(p)
    else:
        k = K.GaussianKernel(1.0)
        k.gamma = p                      # (the constructor casts to float32: a representation, not a value, matter)
    if not ctx.sym:
        x, sup, w = x.astype(np.float32), sup.astype(np.float32), w.astype(np.float32)
        if kernel == "linear":
            k.a = np.float32(k.a)
        else:
            k.gamma = np.float32(k.gamma)
    fast = k.linear_combination(x, sup, w)
    plain = sum(w[n] * k(x, sup[n]) for n in range(nsup))
    ctx.ensure("shape of the result == shape of the signal without its component axis", np.shape(fast) == tuple(shape[:-1]))
    ctx.ensure("accelerated linear_combination(x) == sum_n w_n k(x, s_n)", eq(fast, plain))


@ob("C14.kernel_numba", kind="B", cases=product_cases(kernel=("gaussian", "linear"), form=("pixels", "2d", "3d")), funcs=FUNCS, samples=(1, 3), tol=2e-4,
    cite="its accelerated evaluation agrees with the plain kernel sum for every supported signal shape; reproduces the prescribed values at its "
         "distinct, well-conditioned support points", note="bounded: numba-compiled float32 kernels and a dense solve are outside the verifier")
def c14_kernel_numba(ctx, kernel, form):
    import darsia.utils.kernels as K
    rng = np.random.default_rng(ctx.rng.randrange(1 << 30))
    nsup = int(rng.integers(1, 5))
    sup = (rng.random((nsup, 3)) + np.arange(nsup)[:, None] * 0.7).astype(np.float32)
    w = rng.random(nsup).astype(np.float32)
    k = K.GaussianKernel(1.0) if kernel == "gaussian" else K.LinearKernel(1.0)
    shape = {"pixels": (3,), "2d": (5, 3), "3d": (3, 4, 3)}[form]
    x = rng.random(shape).astype(np.float32)
    fast = k.linear_combination(x, sup, w)
    plain = K.BaseKernel.linear_combination(k, x.astype(np.float64), sup.astype(np.float64), w.astype(np.float64))
    ctx.ensure("accelerated linear_combination == plain kernel sum", bool(np.allclose(fast, plain, rtol=2e-4, atol=2e-5)) and np.shape(fast) == np.shape(plain))
    if kernel == "gaussian":
        vals = rng.random(nsup)
        KI = darsia.KernelInterpolation(k, sup.astype(np.float64), vals)
        got = KI(sup.astype(np.float64))
        ctx.ensure("interpolation reproduces the prescribed values at the support points", bool(np.allclose(got, vals, rtol=1e-3, atol=1e-3)))


@ob("C14.kernel_matrix", cases=product_cases(nsup=(1, 2, 3), history=("fresh", "kernel-updated", "values-updated")),
    mods=["darsia.signals.models.kernelinterpolation", "darsia.utils.kernels"], funcs=FUNCS, samples=(2, 4), tol=1e-4,
    skip=("GaussianKernel.linear_combination", "LinearKernel.linear_combination"), budget={"timeout_ms": 15000},
    cite="Kernel interpolation reproduces the prescribed values at its distinct, well-conditioned support points",
    note="linear kernel with symbolic shift and symbolic prescribed values, concrete distinct supports; well-conditioned = non-singular kernel matrix (assumed)")
def c14_kernel_matrix(ctx, nsup, history):
    import darsia.utils.kernels as K
    sup = np.array([[0.5, 1.0, 0.25], [1.5, -0.5, 0.75], [-1.0, 0.25, 2.0]], dtype=np.float64)[:nsup]
    a = ctx.real("a", sample=(0.5, 2.0))
    vals = np.array(ctx.reals("v", nsup, sample=(-1.0, 1.0)))
    kern = lambda shift: K.LinearKernel(shift)
    X = np.array([[sum(float(sup[i][c]) * float(sup[j][c]) for c in range(3)) + a for j in range(nsup)] for i in range(nsup)], dtype=object)
    from vf.symnp import _det
    det = _det(X) if ctx.sym else float(np.linalg.det(X.astype(float)))
    ctx.assume(det > 1e-3 if not ctx.sym else (det != 0))
    if history == "kernel-updated":
        X1 = X + 1
        ctx.assume((_det(X1) != 0) if ctx.sym else abs(float(np.linalg.det(X1.astype(float)))) > 1e-3)      # the earlier kernel is well-conditioned too
        KI = darsia.KernelInterpolation(kern(a + 1), sup.copy(), vals.copy())
        KI.update(kernel=kern(a))
    elif history == "values-updated":
        KI = darsia.KernelInterpolation(kern(a), sup.copy(), vals.copy() * 2)
        KI.update(values=vals.copy())
    else:
        KI = darsia.KernelInterpolation(kern(a), sup.copy(), vals.copy())
    ctx.ensure("supports are kept (distinct supports, none removed)", KI.num_supports == nsup)
    ctx.witness("values_updated_after_setup_with_unsorted_supports", history == "values-updated" and nsup == 3)
    order = [int(np.argmin(np.sum((sup - np.asarray(KI.supports[i], dtype=float)) ** 2, axis=1))) for i in range(nsup)]   # np.unique sorts
    ctx.ensure("kernel matrix X[i,j] == k(s_i, s_j) incl. the diagonal", eq(KI.X, np.array([[X[order[i]][order[j]] for j in range(nsup)] for i in range(nsup)], dtype=object)))
    w = KI.interpolation_weights
    rep = [sum(w[n] * (sum(float(KI.supports[i][c]) * float(KI.supports[n][c]) for c in range(3)) + a) for n in range(nsup)) for i in range(nsup)]
    ctx.ensure("plain kernel sum reproduces the prescribed values at the support points", eq(rep, [vals[order[i]] for i in range(nsup)]))


@ob("C14.kernel_update", kind="B", cases=[c for c in product_cases(kernel=("gaussian", "linear"), nsup=(1, 2, 3, 4), change=("values", "kernel", "values-by-parameters")) if not (c["kernel"] == "linear" and c["nsup"] == 4)],
    funcs=FUNCS, samples=(1, 2), tol=2e-3,
    cite="Kernel interpolation reproduces the prescribed values at its distinct, well-conditioned support points (also after the values or the kernel were re-prescribed on a model that was already evaluated)",
    note="bounded (numba float32 kernels): evaluate, update, evaluate again; supports in lexicographic order (see the recorded finding for unsorted supports)")
def c14_kernel_update(ctx, kernel, nsup, change):
    import darsia.utils.kernels as K
    rng = np.random.default_rng(ctx.rng.randrange(1 << 30))
    mk = lambda p: K.GaussianKernel(p) if kernel == "gaussian" else K.LinearKernel(p)
    gram = lambda k, s: np.array([[float(k(s[i], s[j])) for j in range(len(s))] for i in range(len(s))])
    for _ in range(200):      # precondition "distinct, well-conditioned": kernel matrices of both kernels used have condition number < 200
        if kernel == "gaussian":
            sup = np.sort(rng.random((nsup, 1)), axis=0) + np.arange(nsup)[:, None] * 0.8 + rng.random((nsup, 3)) * np.array([0.0, 0.3, 0.3])
        else:       # <x,y>+a has rank <= 4: near-orthogonal directions keep it well-conditioned
            q, _ = np.linalg.qr(rng.normal(size=(3, 3)))
            sup = 1.5 * q[:nsup] + 0.1 * rng.random((nsup, 3))
            sup = sup[np.argsort(sup[:, 0])]
        if max(np.linalg.cond(gram(mk(1.0), sup)), np.linalg.cond(gram(mk(1.7), sup))) < 200:
            break
    else:
        ctx.assume(False)
    v1, v2 = rng.random(nsup), rng.random(nsup) + 1.0
    KI = darsia.KernelInterpolation(mk(1.0), sup.copy(), v1.copy())
    first = np.array(KI(sup.copy()))
    ctx.ensure("fresh model reproduces the prescribed values", bool(np.allclose(first, v1, rtol=2e-3, atol=2e-3)))
    if change == "values":
        KI.update(values=v2.copy())
        want = v2
    elif change == "values-by-parameters":
        KI.update_model_parameters(v2.copy(), dofs=["values"])
        want = v2
    else:
        KI.update(kernel=mk(1.7))
        want = v1
    got = np.array(KI(sup.copy()))
    ctx.ensure(f"after update({change}) the evaluated model reproduces the currently prescribed values", bool(np.allclose(got, want, rtol=2e-3, atol=2e-3)))
    plain = K.BaseKernel.linear_combination(KI.kernel, sup.astype(np.float64), KI.supports.astype(np.float64), np.asarray(KI.interpolation_weights, dtype=np.float64))
    ctx.ensure("evaluation == plain kernel sum with the current weights", bool(np.allclose(got, plain, rtol=2e-3, atol=2e-3)))


_FINE_LABELS = np.array([[0, 1, 0, 1, 2, 2], [1, 0, 1, 0, 2, 0], [3, 3, 0, 1, 0, 1], [3, 0, 3, 1, 1, 0]], dtype=np.uint8)


@ob("C14.heterogeneous_history", cases=product_cases(first=((2, 3), (8, 12), (1, 2)), second=((4, 6), (2, 3))), mods=MODS, funcs=FUNCS, samples=(2, 4),
    cite="label-wise (heterogeneous) models agree on every labelled region with the corresponding homogeneous model (whatever the model was applied to before)",
    note="relational: a model that has served a signal at another resolution vs a fresh model (label maps are resized with the real cv2.resize on concrete labels; signals symbolic); "
         "after seed C14_e: resized labels derived from the previously resized ones")
def c14_heterogeneous_history(ctx, first, second):
    lab = _FINE_LABELS
    uniq = list(np.unique(lab))
    s = np.array(ctx.reals("s", len(uniq), sample=(-2.0, 2.0)))
    o = np.array(ctx.reals("o", len(uniq), sample=(-1.0, 1.0)))
    used = darsia.HeterogeneousLinearModel(lab.copy(), scaling=s, offset=o)
    fresh = darsia.HeterogeneousLinearModel(lab.copy(), scaling=s, offset=o)
    y = ctx.array("y", first, sample=(-2.0, 3.0))
    x = ctx.array("x", second, sample=(-2.0, 3.0))
    used(y)
    ctx.ensure(f"after a signal of shape {first}: result on a signal of shape {second} equals a fresh model's", eq(used(x), fresh(x)))
    if second == lab.shape:
        want = np.empty(lab.shape, dtype=object)
        for i in np.ndindex(*lab.shape):
            k = uniq.index(lab[i])
            want[i] = s[k] * x[i] + o[k]
        ctx.ensure("... and at the labels' own resolution it is the label-wise linear model", eq(used(x), want))
    ctx.ensure("the label map handed to the constructor is not altered", bool(np.array_equal(used.labels, lab)))


@ob("C14.combined_mask", cases=product_cases(front=("linear", "linear/clip", "none"), masked=(True, False)), mods=MODS, funcs=FUNCS, samples=(2, 4),
    cite="a combined model equals the sequential composition of its parts ... static thresholding returns exactly the voxels strictly between its bounds inside the mask",
    note="two public entry points that must agree: combined(signal, mask) and threshold(front(signal), mask) - the extra positional argument reaches the part that takes it "
         "(after seed C14_g: argument count of a bound method taken without self)")
def c14_combined_mask(ctx, front, masked):
    shape = (2, 3)
    x = ctx.array("x", shape, sample=(-1.0, 2.0))
    mask = np.array([[True, False, True], [True, True, False]])
    lo = ctx.real("lo", sample=(-0.5, 0.8))
    hi = ctx.real("hi", sample=(0.8, 1.5))
    T = darsia.StaticThresholdModel(lo, hi) if ctx.sym else darsia.StaticThresholdModel(float(lo), float(hi))
    parts = [] if front == "none" else [_mk(ctx, k, str(i))[0] for i, k in enumerate(front.split("/"))]
    C = darsia.CombinedModel(parts + [T])
    seq = x
    for m in parts:
        seq = m(seq)
    want = T(seq, mask) if masked else T(seq)
    got = C(x, mask) if masked else C(x)
    oks = [(eq(got[i], want[i]) if ctx.sym else bool(got[i]) == bool(want[i])) for i in np.ndindex(*shape)]
    ctx.ensure("combined(signal[, mask]) == threshold(front(signal)[, mask]) voxel by voxel", and_(*oks))
    if masked:
        ctx.ensure("nothing outside the mask is selected", and_(*[(eq(got[i], False) if ctx.sym else not bool(got[i])) for i in np.ndindex(*shape) if not mask[i]]))
