"""C04 — Wasserstein solvers return mass-conserving fluxes and self-consistent results."""
import itertools
import warnings

import numpy as np
import scipy.sparse as sps

import darsia
from darsia.measure import wasserstein as W
from vf.core import and_, eq, ob, product_cases
from vf.skel import converged_flag_vcs

from .wass_common import (BACKENDS, FORMULATIONS, L1_MODES, MOBILITY, balance_residual, base_options, grid_of, images, mass_rhs, solver)

FUNCS = ["darsia.measure.wasserstein:WassersteinDistanceNewton._solve", "darsia.measure.wasserstein:WassersteinDistanceBregman._solve",
         "darsia.measure.wasserstein:VariationalWassersteinDistance.__call__", "darsia.measure.wasserstein:VariationalWassersteinDistance._setup_discretization",
         "darsia.measure.wasserstein:WassersteinDistanceNewton.jacobian", "darsia.measure.wasserstein:WassersteinDistanceBregman._update_regularization",
         "darsia.measure.wasserstein:VariationalWassersteinDistance.l1_dissipation", "darsia.measure.wasserstein:VariationalWassersteinDistance.transport_density",
         "darsia.measure.wasserstein:VariationalWassersteinDistance.linear_solve", "darsia.measure.wasserstein:VariationalWassersteinDistance.cell_weighted_flux"]
SOLVERS = {"newton": W.WassersteinDistanceNewton, "bregman": W.WassersteinDistanceBregman}


@ob("C04.flag", kind="T", cases=[dict(method="newton"), dict(method="bregman")], funcs=FUNCS[:2], samples=(0, 0),
    cite="A run is reported converged only if its stopping criteria were met; if an inner step fails at any iteration the result is flagged non-converged",
    note="control-flow skeleton of the real _solve (AST -> VC): every statement may raise, every call is havoc; holds for EVERY num_iter and every fault point")
def c04_flag(ctx, method):
    vcs, stats = converged_flag_vcs(SOLVERS[method]._solve)
    ctx.ensure("the skeleton has return paths and tracks the converged flag", stats["return_paths"] > 0 and len(vcs) > 0)
    for label, goal in vcs:
        ctx.ensure(label, goal)


class Fault(Exception):
    pass


def _inject(obj, name, index):
    """make the index-th call of obj.<name> raise (transient fault); returns counter dict"""
    real = getattr(obj, name)
    state = {"n": 0, "hit": False}

    def wrapper(*a, **k):
        i = state["n"]
        state["n"] += 1
        if i == index:
            state["hit"] = True
            raise Fault(f"injected failure of {name} at call {i}")
        return real(*a, **k)
    setattr(obj, name, wrapper)
    return state


def _fault_cases(tier):
    out = []
    for method in ("newton", "bregman"):
        for target in ("linear_solve", "l1_dissipation", "anderson"):
            for num_iter in ((2, 4) if tier == "quick" else (1, 2, 3, 4, 6)):
                out.append(dict(method=method, target=target, num_iter=num_iter))
    return out


@ob("C04.consistent", kind="B", cases=_fault_cases, funcs=FUNCS, samples=(1, 1), tol=1e-9,
    cite="the reported distance is the transport cost of exactly that flux ... if an inner step fails at any iteration the result is flagged "
         "non-converged and still describes the last valid iterate",
    note="fault enumeration: a transient failure injected at EVERY call index of linear_solve / l1_dissipation / the Anderson step inside the iteration, per num_iter")
def c04_consistent(ctx, method, target, num_iter):
    rng = np.random.default_rng(7)
    shape = (4, 3)
    grid, h = grid_of(shape)
    m1, m2 = images(shape, h, rng)
    opts = base_options(num_iter=num_iter, aa_depth=2 if target == "anderson" else 0, tol_residual=1e-30, tol_increment=1e-30, tol_distance=1e-30)
    # number of calls in a fault-free run
    ref = solver(method, grid, opts)
    counters = {}
    for nm in ("linear_solve", "l1_dissipation"):
        counters[nm] = _inject(ref, nm, -1)
    if ref.anderson is not None:
        real_a = ref.anderson.__call__
    with warnings.catch_warnings():
        warnings.simplefilter("ignore")
        d0, info0 = ref(m1, m2)
    flux0 = None
    ncalls = {"linear_solve": counters["linear_solve"]["n"], "l1_dissipation": counters["l1_dissipation"]["n"], "anderson": num_iter}
    first = {"linear_solve": 1, "l1_dissipation": 1, "anderson": 0}[target]       # call 0 of linear_solve / l1_dissipation is the initialisation
    last = ncalls[target] - (1 if (method == "bregman" and target == "linear_solve") else 0)   # Bregman's last linear_solve is the pressure recovery
    ctx.ensure("fault-free run: converged flag agrees with the criteria (tolerances unreachable => not converged)", info0["converged"] is False)
    for idx in range(first, last):
        w = solver(method, grid, opts)
        if target == "anderson":
            st = {"n": 0, "hit": False}
            real = w.anderson

            class A:
                def __call__(self, *a, **k):
                    i = st["n"]
                    st["n"] += 1
                    if i == idx:
                        st["hit"] = True
                        raise Fault("injected failure of the Anderson step")
                    return real(*a, **k)
            w.anderson = A()
        else:
            st = _inject(w, target, idx)
        with warnings.catch_warnings():
            warnings.simplefilter("ignore")
            dist, info = w(m1, m2)
        ctx.tick()
        flat = None
        # recover the returned flat flux: cell flux is face_to_cell(flat) — recompute the cost from the returned solution instead
        sol_flux = info["flux"]
        # the distance must be the cost of the returned flux: compare through the transport density returned alongside
        td = info["transport_density"]
        cost = float(w.mass_matrix_cells.dot(np.ravel(td, "F")).sum())
        ctx.ensure(f"fault at {target} call {idx}: injected", st["hit"])
        ctx.ensure(f"fault at {target} call {idx}: run flagged non-converged", info["converged"] is False)
        ctx.ensure(f"fault at {target} call {idx}: distance == transport cost of the returned flux", abs(dist - cost) <= 1e-9 * max(1.0, abs(cost)))
        ctx.ensure(f"fault at {target} call {idx}: returned cell flux and transport density are finite", bool(np.all(np.isfinite(sol_flux))) and bool(np.all(np.isfinite(td))))


def _shapes(tier):
    if tier == "quick":
        return [(5,), (1,), (3, 2), (1, 4), (4, 1), (2, 2, 2), (2, 1, 3)]
    return [(n,) for n in range(1, 13)] + list(itertools.product(range(1, 8), repeat=2)) + list(itertools.product(range(1, 6), repeat=3))


def _blocks(A, w):
    A = sps.csc_matrix(A)
    nf, nc = w.grid.num_faces, w.grid.num_cells
    return A[nf:nf + nc, :nf], A[nf:nf + nc, nf:nf + nc], A[nf:nf + nc, nf + nc:], A[nf + nc:, :nf], A[nf + nc:, nf:nf + nc], A[nf + nc:, nf + nc:]


@ob("C04.rows", kind="B", cases=lambda tier: [dict(shape=s, mob=m.name) for s in _shapes(tier) for m in MOBILITY], funcs=FUNCS, samples=(1, 1), tol=1e-12,
    cite="mass balance enforced as the second block row of every linear system",
    note="per grid shape (thorough: the whole C07 shape range), all mobility modes, random fluxes: block rows of darcy_init, jacobian(.), _update_regularization(.), broken_darcy")
def c04_rows(ctx, shape, mob):
    rng = np.random.default_rng(3)
    grid, h = grid_of(shape)
    if grid.num_faces == 0:
        ctx.ensure("single-cell grid: no faces, nothing to assemble", True)
        return
    thin = min(shape) == 1 or len(shape) == 1
    known_cfg = thin and mob in ("SUBCELL_BASED", "FACE_BASED")
    ctx.witness("subcell_or_face_mobility_on_thin_grid", False)
    for mob in [W.MobilityMode[mob]]:
        for method in ("newton", "bregman"):
            try:
                w = solver(method, grid, base_options(mobility_mode=mob, formulation="full"))
            except Exception as e:      # noqa: BLE001
                ctx.ensure(f"{method}/{mob.name}: solver can be set up on shape {shape} ({type(e).__name__}: {e})", False)
                continue
            sol = rng.standard_normal(grid.num_faces + grid.num_cells + 1)
            mats = {"darcy_init": w.darcy_init, "broken_darcy": w.broken_darcy}
            try:
                if method == "newton":
                    mats["jacobian"] = w.jacobian(sol)
                else:
                    mats["regularization"] = w._update_regularization(sol[w.flux_slice])[0]
            except Exception as e:      # noqa: BLE001
                if known_cfg and isinstance(e, IndexError):
                    ctx.witness("subcell_or_face_mobility_on_thin_grid", True)
                ctx.ensure(f"{method}/{mob.name}: linearisation can be assembled on shape {shape} ({type(e).__name__})", False)
                continue
            c = np.zeros((1, grid.num_cells))
            c[0, w.constrained_cell_flat_index] = 1.0
            for name, A in mats.items():
                Dv, Z, mc, zf, cc, zz = _blocks(A, w)
                ctx.tick()
                ctx.ensure(f"{method}/{mob.name}/{name}: second block row is [div, 0, -c^T]",
                           (abs(Dv - w.div).max() <= 1e-14) and (Z.nnz == 0 or abs(Z).max() == 0) and np.allclose(mc.toarray(), -c.T))
                ctx.ensure(f"{method}/{mob.name}/{name}: third block row is [0, c, 0]",
                           (zf.nnz == 0 or abs(zf).max() == 0) and np.allclose(cc.toarray(), c) and (zz.nnz == 0 or abs(zz).max() == 0))
    # incidence structure => zero column sums => the multiplier vanishes for zero-mean mass difference
    ctx.ensure("every column of div sums to zero", bool(np.allclose(np.asarray(w.div.sum(axis=0)), 0)))


def _runtime_cases(tier):
    out = []
    shapes = [(6,), (4, 3), (3, 1), (2, 2, 3)] if tier == "quick" else [(6,), (1,), (12,), (4, 3), (3, 1), (1, 5), (7, 7), (2, 2, 3), (1, 3, 2), (5, 5, 5)]
    combos = []
    for method in ("newton", "bregman"):
        for l1 in L1_MODES:
            for mob in MOBILITY:
                combos.append((method, l1, mob, "pressure", "direct", 0, None))
        for form in FORMULATIONS:
            for ls in BACKENDS[form]:
                combos.append((method, L1_MODES[0], MOBILITY[0], form, ls, 0, None))
        combos.append((method, L1_MODES[0], MOBILITY[0], "pressure", "direct", 3, None))
        combos.append((method, L1_MODES[0], MOBILITY[0], "pressure", "direct", 0, 2.0))
    for form, ls in (("pressure", "direct"), ("pressure", "amg"), ("flux_reduced", "direct"), ("full", "direct")):
        combos.append(("bregman-adaptive", L1_MODES[0], MOBILITY[0], form, ls, 0, None))
    if tier == "quick":
        combos = [c for i, c in enumerate(combos) if i % 3 == 0 or c[5] or c[6] or c[3] != "pressure" or c[4] != "direct"]
    kinds = ("dense", "sparse", "single")
    k = 0
    for shape in shapes:
        for c in combos:
            if tier == "quick" and (hash((shape, c[0], c[1].name, c[2].name, c[3], c[4])) % 4 != 0) and not (c[5] or c[6] or c[0] == "bregman-adaptive"):
                continue
            out.append(dict(shape=shape, method=c[0], l1=c[1].name, mob=c[2].name, form=c[3], ls=c[4], aa=c[5], weight=c[6], masses=kinds[k % 3]))
            k += 1
    # runs stopped right after the first Anderson mixing step (iteration index 2)
    for method in ("newton", "bregman"):
        for form in ("pressure", "full"):
            out.append(dict(shape=(4, 3), method=method, l1=L1_MODES[0].name, mob=MOBILITY[0].name, form=form, ls="direct", aa=2, weight=None, masses="dense", num_iter=3))
    return out


@ob("C04.runtime", kind="B", cases=_runtime_cases, funcs=FUNCS, samples=(1, 1), tol=1e-7,
    cite="the returned flux satisfies the discrete mass balance ... to linear-solver precision, the reported distance is the transport cost of "
         "exactly that flux, and the auxiliary outputs (cell fluxes, transport density, pressure pinned at the reference cell) derive from the same solution",
    note="bounded: the real solvers on 1-3-D grids incl. single-cell axes and anisotropic voxels; residual size of splu / AMG / CG is not decidable by contract")
def c04_runtime(ctx, shape, method, l1, mob, form, ls, aa, weight, masses, num_iter=25):
    rng = np.random.default_rng(abs(hash((shape, method, l1, mob, form, ls))) % (1 << 30))
    grid, h = grid_of(shape)
    m1, m2 = images(shape, h, rng, masses)
    wimg = None
    if weight:
        wimg = darsia.Image(np.full(shape, float(weight)), space_dim=len(shape), scalar=True, dimensions=list(m1.dimensions))
    opts = base_options(l1_mode=W.L1Mode[l1], mobility_mode=W.MobilityMode[mob], formulation=form, linear_solver=ls, aa_depth=aa, num_iter=num_iter)
    if num_iter != 25:
        opts.update(tol_residual=1e-30, tol_increment=1e-30, tol_distance=1e-30)
    ctx.witness("bregman_anderson_first_mixing_blowup", False)
    if method == "bregman-adaptive":
        # adaptive regularisation: the weight is updated at several iterations > 0; tolerances unreachable so that the run gets there
        opts.update(bregman_update=lambda it: it % 3 == 0, tol_residual=1e-30, tol_increment=1e-30, tol_distance=1e-30, num_iter=10)
        method = "bregman"
    thin = min(shape) == 1 or len(shape) == 1
    # the recorded finding is the IndexError that escapes the BREGMAN solver (raised before its loop); Newton handles it inside its iteration (falls back to the last
    # valid iterate, flagged non-converged), so an IndexError escaping Newton is not the recorded finding (after seed C05_l)
    known_cfg = thin and mob in ("SUBCELL_BASED", "FACE_BASED") and method == "bregman"
    ctx.witness("subcell_or_face_mobility_on_thin_grid", False)
    with warnings.catch_warnings():
        warnings.simplefilter("ignore")
        w = solver(method, grid, opts, wimg)
        # capture the flat solution through _solve
        real_solve = w._solve
        cap = {}

        def spy(rhs):
            r = real_solve(rhs)
            cap["solution"] = r[1].copy()
            cap["distance"] = r[0]
            return r
        w._solve = spy
        real_ls = w.linear_solve
        peak = {"rhs": 0.0}

        def ls_spy(matrix, rhs, *a, **k):
            peak["rhs"] = max(peak["rhs"], float(np.max(np.abs(rhs))) if rhs.size else 0.0)
            return real_ls(matrix, rhs, *a, **k)
        w.linear_solve = ls_spy
        try:
            dist, info = w(m1, m2)
        except IndexError:
            if known_cfg:
                ctx.witness("subcell_or_face_mobility_on_thin_grid", True)
            raise
    if grid.num_faces == 0:
        ctx.ensure("single cell: distance 0", dist == 0)
        return
    sol = cap["solution"]
    flat = sol[w.flux_slice]
    scale = max(1.0, float(np.linalg.norm(mass_rhs(w, m1, m2))))
    # recorded known finding: the first Anderson mixing of the Bregman iteration can blow up the right-hand side (ill-conditioned least squares)
    ctx.witness("bregman_anderson_first_mixing_blowup", method == "bregman" and aa > 0 and peak["rhs"] > 1e8 * scale)
    # recorded known finding (see C08): flux_reduced + amg / cg does not converge above 100 unknowns; only the balance clause is affected
    ctx.witness("flux_reduced_iterative_above_100_unknowns", form == "flux_reduced" and ls == "cg" and grid.num_cells + 1 > 100
                and abs(dist - w.l1_dissipation(flat)) <= 1e-9 * max(1.0, abs(dist)))
    ctx.ensure("mass balance: div(flux) == M (m2 - m1) to solver precision", balance_residual(w, flat, m1, m2) <= 1e-7 * scale)
    ctx.ensure("reported distance == l1_dissipation(returned flux)", abs(dist - w.l1_dissipation(flat)) <= 1e-9 * max(1.0, abs(dist)))
    ctx.ensure("cell fluxes == face_to_cell(returned flux)", bool(np.allclose(info["flux"], darsia.face_to_cell(grid, flat), atol=1e-12)))
    ctx.ensure("transport density derives from the same flux", bool(np.allclose(info["transport_density"], w.transport_density(flat, flatten=False), atol=1e-12)))
    ctx.ensure("pressure is the reshaped pressure block", bool(np.allclose(info["pressure"], sol[w.pressure_slice].reshape(shape, order="F"))))
    ctx.ensure("pressure pinned at the reference cell", abs(sol[w.pressure_slice][w.constrained_cell_flat_index]) <= 1e-6 * max(1.0, float(np.abs(sol[w.pressure_slice]).max())))
    ctx.ensure("weighted flux derives from the same cell flux", bool(np.allclose(info["weighted_flux"], w.cell_weighted_flux(info["flux"]))))
    ctx.ensure("distance finite and non-negative", np.isfinite(dist) and dist >= 0)


@ob("C04.outputs", cases=[dict(shape=(2, 2), weighted=False), dict(shape=(3,), weighted=False), dict(shape=(2, 2), weighted=True)],
    mods=["darsia.utils.fv", "darsia.measure.wasserstein", "darsia.measure.emd"], funcs=FUNCS, samples=(1, 3), budget={"timeout_ms": 20000},
    cite="the auxiliary outputs (cell fluxes, transport density, pressure ...) derive from the same solution",
    note="__call__ with _solve returning an ARBITRARY solution vector (symbolic): outputs are functions of that one vector; transport density / norm run natively on symbols")
def c04_outputs(ctx, shape, weighted):
    grid, h = grid_of(shape)
    dim = len(shape)
    nf, nc = int(grid.num_faces), int(grid.num_cells)
    sol = ctx.array("sol", (nf + nc + 1,), sample=(-1.0, 1.0))
    dval = ctx.real("dist", sample=(0.0, 3.0))
    wobj = object.__new__(W.WassersteinDistanceNewton)
    wobj.grid, wobj.options, wobj.voxel_size = grid, {"return_info": True}, grid.voxel_size
    wobj.l1_mode = W.L1Mode.CONSTANT_CELL_PROJECTION
    wobj.weight = None
    wobj.cell_weights = np.ones(shape)
    if weighted:
        cw = ctx.array("cw", shape, pos=True, sample=(0.5, 2.0))
        wobj.weight = darsia.Image(cw, space_dim=dim, scalar=True)
        wobj.cell_weights = cw
    wobj.flux_slice, wobj.pressure_slice = slice(0, nf), slice(nf, nf + nc)
    wobj._solve = lambda rhs: (dval, sol, {"converged": True})
    wobj._compatibility_check = lambda a, b: True
    a = ctx.array("a", shape, sample=(0.1, 1.0))
    b = ctx.array("b", shape, sample=(0.1, 1.0))
    mk = lambda arr: darsia.Image(arr, space_dim=dim, scalar=True)
    dist, info = W.VariationalWassersteinDistance.__call__(wobj, mk(a), mk(b))
    flat = sol[:nf]
    ctx.ensure("distance is what the solver returned", eq(dist, dval))
    ctx.ensure("cell flux == face_to_cell(flux block of the solution)", eq(info["flux"], darsia.face_to_cell(grid, flat)))
    ctx.ensure("pressure == pressure block reshaped in Fortran order", eq(info["pressure"], sol[nf:nf + nc].reshape(shape, order="F")))
    ctx.ensure("mass difference == img_2 - img_1", eq(info["mass_diff"], b - a))
    cf = darsia.face_to_cell(grid, flat)
    wf = cf * wobj.cell_weights[..., None] if weighted else cf
    ctx.ensure("weighted flux == cell flux * cell weight", eq(info["weighted_flux"], wf))
    td = info["transport_density"]
    ok = []
    for v in np.ndindex(*shape):
        n2 = sum(wf[v + (k,)] * wf[v + (k,)] for k in range(dim))
        ok.append(and_(td[v] >= 0, eq(td[v] * td[v], n2)))
    ctx.ensure("transport density == Euclidean norm of the (weighted) cell flux at the cell centre (cell projection mode)", and_(*ok))


@ob("C04.lemmas", kind="L", cases=[{}], samples=(0, 0), funcs=[],
    cite="the returned flux satisfies the discrete mass balance ... (every iterate, with or without Anderson mixing; the multiplier vanishes)",
    note="Lean 4 + Mathlib lemmas over the contracts (lemmas/DarsiaLemmas.lean): mass_step, mass_solve, affine_mix, total_divergence_zero, "
         "multiplier_zero, quadrature_lower_bound, schur_full_system; their hypotheses are the clauses of C04.rows / C06.div / C08 checked on the real code")
def c04_lemmas(ctx):
    from vf.lean import check
    res = check()
    ctx.note(f"lean lemmas hash {res['hash']} cached={res['cached']}")
    ctx.ensure("lemma file compiles with Lean 4 + Mathlib without errors, sorry, axioms or admits: " + res["output"][:300], res["ok"])
    want = {"mass_step", "mass_solve", "affine_mix", "total_divergence_zero", "multiplier_zero", "quadrature_lower_bound", "schur_full_system"}
    ctx.ensure("all lemmas the claims refer to are present", want <= set(res["theorems"]))


# ---- the real iterations on symbolic data (back end H) ---------------------------------------------------------------------------
#
# C04.step runs the REAL WassersteinDistanceNewton._solve / WassersteinDistanceBregman._solve (and below them the real residual, jacobian,
# _update_regularization, _shrink, linear_solve, eliminate_flux, eliminate_lagrange_multiplier, compute_flux_update, AndersonAcceleration)
# on a symbolic mass difference.  Three things are abstracted, each by a contract that is proved or validated elsewhere:
#   * the factorisation  splu(M).solve(b)  ->  some x with M x = b                          (assumed; direct back end)
#   * the mobility       _compute_face_weight(flux) -> ANY positive weights w, and 1 / w   (proved by C04.face_weight for every mobility mode)
#   * the cost           l1_dissipation(flux) -> an uninterpreted function of the flux     (so "distance == cost of the returned flux" is
#                                                                                            checked for every cost functional)
#   * the least squares  scipy.linalg.lstsq(A, b)[0] -> ANY coefficient vector             (Anderson mixing with arbitrary coefficients)

from vf import stubs as _stubs  # noqa: E402
from vf import symsparse  # noqa: E402
from vf.sym import Sym, lift  # noqa: E402


def lstsq_factory(ctx):
    from vf.symsparse import _term_key
    from vf.sym import PathCtx

    def lstsq(A, b, *a, **k):
        A = np.asarray(A)
        ctx.stub_used("scipy.linalg.lstsq(A, b)[0]: SOME vector of length A.shape[1], a function of (A, b) (arbitrary mixing coefficients; the least-squares property is not used)")
        memo = ctx.__dict__.setdefault("lstsq_memo", {})
        if memo.get("__pc") is not PathCtx.cur:
            memo.clear()
            memo["__pc"] = PathCtx.cur
        key = (A.shape, tuple(_term_key(v) for v in A.flat), tuple(_term_key(v) for v in np.asarray(b).flat))
        if key not in memo:
            n = ctx.__dict__.setdefault("lstsq_calls", 0)
            ctx.__dict__["lstsq_calls"] = n + 1
            memo[key] = np.array([ctx.real(f"gamma{n}_{j}", sample=(-1.0, 1.0)) for j in range(A.shape[1])], dtype=object)
        return memo[key].copy(), None, None, None
    return lstsq


STEP_STUBS = dict(symsparse.stubs())
STEP_STUBS["sp.linalg.lstsq"] = lstsq_factory
STEP_STUBS["hmean"] = _stubs.hmean_stub


def _abstract_mobility_and_cost(ctx, w):
    """the abstractions are FUNCTIONS of the flux: the same flux terms give the same weights (memo shared by all solver objects of one run)"""
    import z3
    from vf.symsparse import _term_key
    from vf.sym import PathCtx
    nf = int(w.grid.num_faces)
    memo = ctx.__dict__.setdefault("fw_memo", {})
    if memo.get("__pc") is not PathCtx.cur:
        memo.clear()
        memo["__pc"] = PathCtx.cur
        ctx.__dict__["fw_calls"] = 0

    def face_weight(flat_flux):
        key = tuple(_term_key(v) for v in flat_flux)
        if key not in memo:
            k = ctx.__dict__["fw_calls"]
            ctx.__dict__["fw_calls"] = k + 1
            memo[key] = np.array([ctx.real(f"fw{k}_{i}", pos=True, sample=(0.1, 5.0)) for i in range(nf)], dtype=object)
        fw = memo[key].copy()
        return fw, 1 / fw
    w._compute_face_weight = face_weight
    L1 = z3.Function("l1_dissipation", *([z3.RealSort()] * nf), z3.RealSort())

    def l1(flat_flux):
        args = [lift(v) for v in flat_flux]
        args = [z3.ToReal(a) if a.is_int() else a for a in args]
        return Sym(L1(*args))
    w.l1_dissipation = l1
    return l1


def _step_cases(tier):
    out = []
    def add(**k):
        d = dict(shape=(3,), method="newton", form="full", num_iter=2, aa=0, fault=-1, start="darcy", adaptive=False, target="linear_solve", L=1.0)
        d.update(k)
        out.append(d)
    shapes = [(3,), (2, 2)] if tier == "quick" else [(3,), (4,), (2, 2), (3, 2), (1, 3), (2, 1, 2)]
    for s in shapes:
        for m in ("newton", "bregman"):
            for f in ("full", "pressure"):
                for a in (0, 2):
                    add(shape=s, method=m, form=f, aa=a)
            add(shape=s, method=m, form="flux_reduced")
    for m in ("newton", "bregman"):
        add(method=m, num_iter=3, shape=(2, 2))                       # the stopping criteria are evaluated: converged and non-converged paths (2-D: the distance does change)
        add(method=m, num_iter=3, form="pressure", aa=2)
        for fault in (1, 2):
            add(method=m, form="pressure", fault=fault, shape=(2, 2))     # an inner linear solve fails at iteration fault - 1 (2-D: the flux does change between iterates)
            add(method=m, form="full", aa=2, fault=fault, shape=(2, 2))
            add(method=m, form="pressure", fault=fault + (1 if m == "newton" else 0), target="l1_dissipation", shape=(2, 2))      # the cost evaluation fails after the iterate was updated
        add(method=m, form="full", aa=2, fault=1, target="anderson", shape=(2, 2))                                             # the mixing step fails
    for s in shapes[:2] if tier == "quick" else shapes:
        for f in ("full", "pressure"):
            add(shape=s, method="newton", form=f, num_iter=1, start="any-state")   # induction step: one iteration from ANY admissible iterate
    # Bregman with a penalty parameter other than the one of the Darcy initialisation (L_init = 1): the matrix of the first regular step differs from the initial one,
    # so nothing factorised for the initial solve may serve it
    for f in ("full", "pressure", "flux_reduced"):
        add(method="bregman", form=f, L=0.25)
        add(method="bregman", form=f, L=4.0, shape=(2, 2))
    for m in ("newton", "bregman"):
        add(method=m, num_iter=0, shape=(2, 2), form="pressure")          # empty iteration budget: what comes back is the Darcy initialisation and ITS cost
        add(method=m, num_iter=1, shape=(2, 2), form="pressure")
    add(method="bregman", adaptive=True, form="pressure")
    add(method="bregman", adaptive=True, form="full", shape=(2, 2))
    if tier != "quick":
        for s in shapes:
            for m in ("newton", "bregman"):
                add(shape=s, method=m, num_iter=3, form="pressure")
    return out


@ob("C04.step", cases=_step_cases, mods=["darsia.measure.wasserstein", "darsia.utils.fv", "darsia.utils.andersonacceleration"], stubs=STEP_STUBS, funcs=FUNCS + [
    "darsia.measure.wasserstein:WassersteinDistanceNewton.residual", "darsia.measure.wasserstein:VariationalWassersteinDistance.optimality_conditions",
    "darsia.measure.wasserstein:WassersteinDistanceBregman._shrink", "darsia.measure.wasserstein:VariationalWassersteinDistance.eliminate_flux",
    "darsia.measure.wasserstein:VariationalWassersteinDistance.eliminate_lagrange_multiplier", "darsia.measure.wasserstein:VariationalWassersteinDistance.compute_flux_update",
    "darsia.utils.andersonacceleration:AndersonAcceleration.__call__"],
    samples=(1, 2), budget={"timeout_ms": 30000, "paths": 64, "decide_ms": 1500, "arith_solver": 2, "wall_s": 400}, tol=1e-7,
    assumes=["splu(M).solve(b) returns x with M x = b exactly (direct back end)",
             "sparse-matrix model vf/symsparse.py (validated by C08.dep_sparse)",
             "mobility abstracted: _compute_face_weight returns arbitrary positive weights and their reciprocals (contract proved by C04.face_weight)",
             "cost abstracted: l1_dissipation is an uninterpreted function of the flux",
             "scipy.linalg.lstsq returns an arbitrary coefficient vector (Anderson mixing coefficients unconstrained)"],
    cite="the returned flux satisfies the discrete mass balance ..., the reported distance is the transport cost of exactly that flux ...; if an inner step fails at any "
         "iteration the result is flagged non-converged and still describes the last valid iterate",
    note="the real _solve of both methods executed on a symbolic mass difference (all data, every positive mobility, every cost functional, every Anderson coefficient); per grid "
         "shape and iteration count <= 3; start='any-state' is the induction step (one Newton iteration from an arbitrary iterate that satisfies balance + pin), which together with the "
         "skeleton VCs of C04.flag covers every num_iter")
def c04_step(ctx, shape, method, form, num_iter, aa, fault, start, adaptive, target, L=1.0):
    grid, h = grid_of(shape)
    opts = base_options(L=L, formulation=form, linear_solver="direct", num_iter=num_iter, aa_depth=aa, tol_residual=2.0 ** -10, tol_increment=2.0 ** -9, tol_distance=2.0 ** -11)      # three DIFFERENT tolerances: each criterion is tied to its own
    if adaptive:
        opts["bregman_update"] = lambda it: it == 1
    w = solver(method, grid, opts)
    nf, nc = int(grid.num_faces), int(grid.num_cells)
    f = ctx.array("f", (nc - 1,), sample=(-1.0, 1.0))
    f = np.concatenate([f, [-sum(f)]])          # equal masses: the difference has zero mean
    l1 = _abstract_mobility_and_cost(ctx, w) if ctx.sym else w.l1_dissipation
    st = None
    if fault >= 0 and target != "anderson":
        st = _inject(w, target, fault)
    elif fault >= 0:
        st = {"n": 0, "hit": False}
        real_a = w.anderson

        class _A:
            def __call__(self, *a, **k):
                i = st["n"]
                st["n"] += 1
                if i == fault:
                    st["hit"] = True
                    raise Fault("injected failure of the Anderson step")
                return real_a(*a, **k)
        w.anderson = _A()
    if start == "any-state" and ctx.sym:
        real_ls = w.linear_solve
        calls = {"n": 0}
        Mf = w.mass_matrix_cells.dot(f)

        def first_any(matrix, rhs, *a, **k):
            calls["n"] += 1
            if calls["n"] > 1:
                return real_ls(matrix, rhs, *a, **k)
            x0 = ctx.array("x0", (nf + nc + 1,), sample=(-1.0, 1.0))
            bal0 = w.div.dot(x0[:nf]) - Mf
            for c in range(nc):
                ctx.assume(eq(bal0[c] - (x0[-1] if c == w.constrained_cell_flat_index else 0.0), 0.0))
            ctx.assume(eq(x0[nf + w.constrained_cell_flat_index], 0.0))
            return x0, {"time_setup": 0.0, "time_solve": 0.0}
        w.linear_solve = first_any
    with warnings.catch_warnings():
        warnings.simplefilter("ignore")
        dist, sol, info = w._solve(f.copy())
    flux = sol[w.flux_slice]
    bal = w.div.dot(flux) - w.mass_matrix_cells.dot(f)
    for c in range(nc):
        ctx.ensure(f"mass balance in cell {c}: div(flux) == M (m2 - m1)", eq(bal[c], 0.0))
    ctx.ensure("reported distance == transport cost (l1_dissipation) of exactly the returned flux", eq(dist, l1(flux)))
    ctx.ensure("pressure pinned at the reference cell", eq(sol[nf + w.constrained_cell_flat_index], 0.0))
    # what the stopping test reads is what the history says it is: the recorded distance increments are the MAGNITUDES of the changes of the recorded distances
    hist_d, hist_inc = info["convergence_history"]["distance"], info["convergence_history"]["distance_increment"]
    for k in range(1, min(len(hist_d), len(hist_inc))):
        ctx.ensure(f"recorded distance increment {k} == |distance[{k}] - distance[{k - 1}]|", eq(hist_inc[k], abs(hist_d[k] - hist_d[k - 1])))
    if num_iter <= 2 or fault >= 0:
        ctx.ensure("not reported converged (fewer than three iterations / an inner step failed)", info["converged"] is False)
    elif info["converged"]:
        # the flag MEANS something: on a path that reports convergence the documented criteria hold for the values the run itself recorded -
        # the last change of the distance is below tol_distance in absolute value (Bregman: relative to the distance), whatever its sign
        hist = info["convergence_history"]["distance"]
        tol_d = opts["tol_distance"]
        change = abs(hist[-1] - hist[-2])
        ctx.ensure("converged => |last change of the distance| < tol_distance (relative to the distance for Bregman)", (change < tol_d) if method == "newton" else (change / hist[-1] < tol_d))
        ctx.ensure("converged => the reported distance is the last recorded one", eq(dist, hist[-1]))
        H = info["convergence_history"]
        if method == "newton":
            ctx.ensure("converged => last residual < tol_residual * first residual", H["residual"][-1] < opts["tol_residual"] * H["residual"][0])
            ctx.ensure("converged => last flux increment < tol_increment * first flux increment", H["flux_increment"][-1] < opts["tol_increment"] * H["flux_increment"][0])
        else:
            ctx.ensure("converged => last mass-conservation residual < tol_residual", H["mass_conservation_residual"][-1] < opts["tol_residual"])
            ctx.ensure("converged => last auxiliary / force increment < tol_increment * the first one", H["aux_force_increment"][-1] < opts["tol_increment"] * H["aux_force_increment"][0])
    if fault >= 0:
        ctx.ensure("the fault was injected", st["hit"])


@ob("C04.face_weight", cases=lambda tier: [dict(shape=s, mob=m.name, l1=l.name, weighted=wt) for s in ([(3,), (2, 2)] if tier == "quick" else [(3,), (2, 2), (3, 2), (2, 2, 2)])
                                           for m in MOBILITY for l in (L1_MODES[2:] if tier == "quick" else L1_MODES) for wt in (False, True)],
    mods=["darsia.measure.wasserstein", "darsia.utils.fv"], stubs=STEP_STUBS, funcs=["darsia.measure.wasserstein:VariationalWassersteinDistance._compute_face_weight",
    "darsia.measure.wasserstein:VariationalWassersteinDistance.transport_density", "darsia.measure.wasserstein:VariationalWassersteinDistance._harmonic_average",
    "darsia.measure.wasserstein:VariationalWassersteinDistance._product", "darsia.measure.wasserstein:VariationalWassersteinDistance.cell_weighted_flux"],
    samples=(2, 4), budget={"timeout_ms": 20000, "paths": 64, "decide_ms": 1500},
    cite="every solver, discretisation and weighting option (the mobility enters the linear systems only through positive face weights)",
    note="contract of _compute_face_weight that C04.step assumes: for every flux, every mobility mode and every positive cell weight the face weights are positive and the second "
         "output is their reciprocal (real code on symbolic fluxes; sqrt over the reals)")
def c04_face_weight(ctx, shape, mob, l1, weighted):
    grid, h = grid_of(shape)
    dim = len(shape)
    wimg = None
    if weighted:
        cw = ctx.array("cw", shape, pos=True, sample=(0.5, 2.0))
        wimg = darsia.Image(cw, space_dim=dim, scalar=True, dimensions=[shape[k] * h[k] for k in range(dim)])
    w = solver("newton", grid, base_options(mobility_mode=W.MobilityMode[mob], l1_mode=W.L1Mode[l1], formulation="full"), wimg)
    nf = int(grid.num_faces)
    u = ctx.array("u", (nf,), sample=(-1.0, 1.0))
    fw, fwinv = w._compute_face_weight(u)
    for i in range(nf):
        ctx.ensure(f"face {i}: weight positive and second output its reciprocal", and_(fw[i] > 0, eq(fw[i] * fwinv[i], 1.0)))


@ob("C04.rows_sym", cases=lambda tier: [dict(shape=s, method=m) for s in ([(3,), (2, 2), (1, 3), (2, 1, 2)] if tier == "quick" else [(2,), (3,), (5,), (2, 2), (3, 2), (1, 3), (3, 1), (2, 1, 2), (2, 2, 2)])
                                        for m in ("newton", "bregman")],
    mods=["darsia.measure.wasserstein", "darsia.utils.fv"], stubs=STEP_STUBS, funcs=FUNCS, samples=(1, 2), budget={"timeout_ms": 20000, "decide_ms": 1500},
    assumes=["sparse-matrix model vf/symsparse.py (validated by C08.dep_sparse)", "mobility abstracted by its contract (C04.face_weight)"],
    cite="mass balance enforced as the second block row of every linear system",
    note="the matrices the real code assembles for an ARBITRARY (symbolic) iterate - darcy_init, broken_darcy, jacobian(.), _update_regularization(.) - have second block row "
         "[div, 0, -c^T] and third block row [0, c, 0] entry for entry, and div has zero column sums; proof companion of the bounded C04.rows")
def c04_rows_sym(ctx, shape, method):
    grid, h = grid_of(shape)
    w = solver(method, grid, base_options(formulation="full"))
    nf, nc = int(grid.num_faces), int(grid.num_cells)
    if ctx.sym:
        _abstract_mobility_and_cost(ctx, w)
    sol = ctx.array("sol", (nf + nc + 1,), sample=(-1.0, 1.0))
    mats = {"darcy_init": w.darcy_init}
    if method == "newton":
        mats["broken_darcy"] = w.broken_darcy
        mats["jacobian"] = w.jacobian(sol)
    else:
        mats["regularization"] = w._update_regularization(sol[w.flux_slice])[0]
    D = np.asarray(w.div.toarray())
    c = np.zeros((1, nc))
    c[0, w.constrained_cell_flat_index] = 1.0
    for name, A in mats.items():
        a = np.asarray(A.toarray())
        ctx.ensure(f"{name}: shape", a.shape == (nf + nc + 1, nf + nc + 1))
        ctx.ensure(f"{name}: second block row is [div, 0, -c^T]", and_(eq(a[nf:nf + nc, :nf], D), eq(a[nf:nf + nc, nf:nf + nc], np.zeros((nc, nc))), eq(a[nf:nf + nc, nf + nc:], -c.T)))
        ctx.ensure(f"{name}: third block row is [0, c, 0]", and_(eq(a[nf + nc:, :nf], np.zeros((1, nf))), eq(a[nf + nc:, nf:nf + nc], c), eq(a[nf + nc:, nf + nc:], np.zeros((1, 1)))))
        ctx.ensure(f"{name}: first block row is [W M_f, -div^T, 0] with a diagonal flux block", and_(eq(a[:nf, nf:nf + nc], -D.T), eq(a[:nf, nf + nc:], np.zeros((nf, 1))),
                                                                                                 eq(a[:nf, :nf] - np.diag(np.diag(a[:nf, :nf])), np.zeros((nf, nf)))))
    ctx.ensure("every column of div sums to zero (=> the multiplier vanishes for a zero-mean mass difference)", eq(D.sum(axis=0), np.zeros(nf)))


@ob("C04.cost_def", cases=lambda tier: [dict(shape=s, l1=l.name, weighted=wt) for s in ([(3,), (2, 2)] if tier == "quick" else [(3,), (2, 2), (3, 2), (2, 1, 2)]) for l in L1_MODES for wt in (False, True)],
    mods=["darsia.measure.wasserstein", "darsia.utils.fv"], stubs=STEP_STUBS, funcs=["darsia.measure.wasserstein:VariationalWassersteinDistance.l1_dissipation",
    "darsia.measure.wasserstein:VariationalWassersteinDistance.transport_density", "darsia.measure.wasserstein:VariationalWassersteinDistance.cell_weighted_flux"],
    samples=(2, 4), budget={"timeout_ms": 20000, "decide_ms": 1500, "arith_solver": 2},
    cite="the reported distance is the transport cost of exactly that flux, and the auxiliary outputs (cell fluxes, transport density ...) derive from the same solution",
    note="the two public faces of the cost agree: l1_dissipation(flux) is the cell-volume-weighted integral of transport_density(flux), for every flux, every L1 mode and every positive "
         "cell weight (after seed C04_g: a fast path of l1_dissipation that ignored the weight)")
def c04_cost_def(ctx, shape, l1, weighted):
    grid, h = grid_of(shape)
    dim = len(shape)
    wimg = None
    if weighted:
        cw = ctx.array("cw", shape, pos=True, sample=(0.5, 2.0))
        wimg = darsia.Image(cw, space_dim=dim, scalar=True, dimensions=[shape[k] * h[k] for k in range(dim)])
    w = solver("newton", grid, base_options(l1_mode=W.L1Mode[l1], formulation="full"), wimg)
    q = ctx.array("q", (int(grid.num_faces),), sample=(-2.0, 2.0))
    cost = w.l1_dissipation(q)
    td = w.transport_density(q, flatten=False)
    vol = float(np.prod(h))
    ctx.ensure("l1_dissipation(flux) == sum over cells of cell volume * transport_density(flux)", eq(cost, vol * np.sum(td)))
    ctx.ensure("flattened transport density is the Fortran ravel of the cell array", eq(w.transport_density(q, flatten=True), np.ravel(td, "F")))


@ob("C04.zero_tolerance", kind="B", cases=product_cases(method=("newton", "bregman"), which=("tol_residual", "tol_increment", "tol_distance", "all")), funcs=FUNCS[:2], samples=(1, 1),
    cite="A run is reported converged only if its stopping criteria were met",
    note="bounded: a tolerance given explicitly as 0 is a legal input whose criterion `error < 0` can never be met - the documented way to force exactly num_iter iterations; the run "
         "performs all of them and is not flagged converged (after seed C04_i: `options.get(key) or default` treats an explicit 0 as 'not given')")
def c04_zero_tolerance(ctx, method, which):
    rng = np.random.default_rng(11)
    shape = (4, 3)
    grid, h = grid_of(shape)
    m1, m2 = images(shape, h, rng)
    tol = {k: (0.0 if which in (k, "all") else 1e30) for k in ("tol_residual", "tol_increment", "tol_distance")}
    num_iter = 6
    w = solver(method, grid, base_options(num_iter=num_iter, **tol))
    with warnings.catch_warnings():
        warnings.simplefilter("ignore")
        dist, info = w(m1, m2)
    ctx.ensure(f"{which} = 0: never reported converged", info["converged"] is False)
    ctx.ensure(f"{which} = 0: all {num_iter} iterations are performed", len(info["convergence_history"]["distance"]) == num_iter and info["number_iterations"] == num_iter - 1)


@ob("C04.criteria", kind="B", cases=product_cases(method=("newton", "bregman"), which=("tol_residual", "tol_increment", "tol_distance", "pair")), funcs=FUNCS[:2], samples=(2, 4), tol=0.0,
    cite="A run is reported converged only if its stopping criteria were met",
    note="bounded: ONE tolerance given (the others at their deactivating defaults), or two different ones: a run reported converged satisfies every GIVEN criterion on the history it "
         "recorded itself, and did not satisfy all of them at an earlier iteration (the proof C04.step states the same for three symbolic iterations, where a tolerance tied to the "
         "wrong criterion leaves it undecided: after seed C04_k)")
def c04_criteria(ctx, method, which):
    rng = np.random.default_rng(ctx.rng.randrange(1 << 30))
    shape = (5, 4)
    grid, h = grid_of(shape)
    m1, m2 = images(shape, h, rng)
    val = {"newton": {"tol_residual": 1e-1, "tol_increment": 1e-2, "tol_distance": 1e-4}, "bregman": {"tol_residual": 1e-3, "tol_increment": 0.3, "tol_distance": 1e-4}}[method]
    given = dict(val) if which == "pair" else {which: val[which]}
    if which == "pair":
        given.pop("tol_increment")
    big = np.finfo(float).max
    passed = {k: given.get(k, big) for k in ("tol_residual", "tol_increment", "tol_distance")}       # not given = the documented deactivating default
    w = solver(method, grid, base_options(num_iter=200, **passed))
    with warnings.catch_warnings():
        warnings.simplefilter("ignore")
        dist, info = w(m1, m2)
    H = info["convergence_history"]

    def met(k):                     # the documented criteria, evaluated at recorded iteration k with the tolerances that were PASSED
        tr, ti, td = given.get("tol_residual", big), given.get("tol_increment", big), given.get("tol_distance", big)
        with np.errstate(over="ignore"):
            if method == "newton":
                return H["residual"][k] < tr * H["residual"][0] and H["flux_increment"][k] < ti * H["flux_increment"][0] and H["distance_increment"][k] < td
            return H["aux_force_increment"][k] < ti * H["aux_force_increment"][0] and H["distance_increment"][k] / H["distance"][k] < td and H["mass_conservation_residual"][k] < tr
    n = len(H["distance"])
    ctx.assume(bool(info["converged"]))            # a run that exhausts its budget says nothing about the flag (bounded: such samples are skipped)
    if info["converged"]:
        ctx.ensure(f"{which}: reported converged => the given criteria hold for the last recorded values", bool(met(n - 1)))
        early = [k for k in range(2, n - 1) if met(k)]
        ctx.ensure(f"{which}: ... and they did not all hold at an earlier iteration (the run stops as soon as they do); earlier: {early[:3]}", not early)


@ob("C04.dep_numeric", kind="B", samples=(2, 6), funcs=[], tol=1e-11, cite="(validation of assumed dependency contracts)",
    note="hmean, scipy.linalg.lstsq (length and function-of-arguments only) and splu(M).solve(b) against the installed scipy")
def c04_dep_numeric(ctx):
    from contracts import deps_validation as dv
    dv.dep_hmean(ctx)
    dv.dep_lstsq(ctx)
    dv.dep_splu(ctx)
