"""C08 — all linear-solve formulations and back ends solve the same system."""
import itertools
import warnings

import numpy as np
import scipy.sparse as sps

import darsia
from darsia.measure import wasserstein as W
from vf.core import and_, eq, ob, product_cases

from .wass_common import BACKENDS, FORMULATIONS, base_options, grid_of, solver

FUNCS = ["darsia.measure.wasserstein:VariationalWassersteinDistance._setup_linear_solver", "darsia.measure.wasserstein:VariationalWassersteinDistance.linear_solve",
         "darsia.measure.wasserstein:VariationalWassersteinDistance.setup_eliminate_flux", "darsia.measure.wasserstein:VariationalWassersteinDistance.eliminate_flux",
         "darsia.measure.wasserstein:VariationalWassersteinDistance.setup_eliminate_lagrange_multiplier",
         "darsia.measure.wasserstein:VariationalWassersteinDistance.eliminate_lagrange_multiplier",
         "darsia.measure.wasserstein:VariationalWassersteinDistance.compute_flux_update"]


def _shapes(tier):
    if tier == "quick":
        return [(2,), (5,), (3, 2), (1, 4), (4, 1), (4, 4), (2, 2, 2), (2, 1, 3), (3, 2, 2)]
    return [(n,) for n in range(2, 13)] + [s for s in itertools.product(range(1, 8), repeat=2) if np.prod(s) > 1] + [s for s in itertools.product(range(1, 6), repeat=3) if np.prod(s) > 1]


def system(w, rng, decades=3.0):
    """mixed system J x = r with J = [[W, -D^T, 0],[D, 0, -c^T],[0, c, 0]], positive face weights over `decades`, zero-mean mass source"""
    nf, nc = w.grid.num_faces, w.grid.num_cells
    weights = 10.0 ** (decades * (rng.random(nf) - 0.5))
    J = sps.bmat([[sps.diags(weights) @ w.mass_matrix_faces, -w.div.T, None], [w.div, None, -w.pressure_constraint.T], [None, w.pressure_constraint, None]], format="csc")
    f = rng.standard_normal(nc)
    f -= f.mean()
    r = np.concatenate([rng.standard_normal(nf), w.mass_matrix_cells.dot(f), np.zeros(1)])
    return J, r, weights


@ob("C08.usable", kind="T", cases=[dict(form=f, ls=b) for f in FORMULATIONS for b in BACKENDS[f]] + [dict(form="flux-reduced", ls="direct"), dict(form="reduced", ls="direct"), dict(form="pressure", ls="lu")],
    funcs=FUNCS, samples=(1, 1),
    cite="every documented formulation is usable", note="finite alphabet of documented (formulation, back end) names evaluated completely on the real dispatch; undocumented names must be rejected at construction")
def c08_usable(ctx, form, ls):
    grid, h = grid_of((3, 2))
    documented = form in FORMULATIONS and ls in BACKENDS.get(form, [])
    try:
        w = solver("newton", grid, base_options(formulation=form, linear_solver=ls))
        built = True
    except (AssertionError, ValueError):
        built = False
    ctx.ensure(f"({form!r}, {ls!r}) accepted at construction iff documented", built == documented)
    if built:
        rng = np.random.default_rng(0)
        J, r, _ = system(w, rng)
        x, stats = w.linear_solve(J, r)
        ctx.ensure(f"({form!r}, {ls!r}) is dispatched to a working solve", x.shape == r.shape and bool(np.all(np.isfinite(x))))
        ctx.ensure(f"({form!r}, {ls!r}) solves the full system", float(np.linalg.norm(J @ x - r)) <= 1e-6 * max(1.0, float(np.linalg.norm(r))))


@ob("C08.schur", kind="L", cases=[dict(nf=2, nc=2), dict(nf=3, nc=2), dict(nf=1, nc=2)], samples=(0, 0), budget={"timeout_ms": 3000, "groebner_s": 60},
    cite="solving a mixed flux-pressure system through the full, the flux-eliminated or the pressure-only formulation ... yields the same flux, pressure and multiplier ... and that solution satisfies the original full system",
    note="lemma over the contracts of eliminate_flux / compute_flux_update (checked on the code by C08.schur_code): block Gauss elimination, generic entries")
def c08_schur(ctx, nf, nc):
    import z3
    R = lambda n: z3.Real(n)
    Wd = [R(f"w{i}") for i in range(nf)]
    D = [[R(f"d{i}_{j}") for j in range(nf)] for i in range(nc)]
    C = [[R(f"c{i}_{j}") for j in range(nc)] for i in range(nc)]
    r1 = [R(f"r1_{j}") for j in range(nf)]
    r2 = [R(f"r2_{i}") for i in range(nc)]
    y = [R(f"y{i}") for i in range(nc)]
    for wv in Wd:
        ctx.assume(wv > 0)
    # contracts: reduced matrix S = C + D W^-1 D^T, reduced rhs = r2 - D W^-1 r1, flux = W^-1 (r1 + D^T y)
    S = [[C[i][k] + sum(D[i][j] * D[k][j] / Wd[j] for j in range(nf)) for k in range(nc)] for i in range(nc)]
    rr = [r2[i] - sum(D[i][j] * r1[j] / Wd[j] for j in range(nf)) for i in range(nc)]
    for i in range(nc):
        ctx.assume(sum(S[i][k] * y[k] for k in range(nc)) == rr[i])          # y solves the reduced system
    u = [(r1[j] + sum(D[i][j] * y[i] for i in range(nc))) / Wd[j] for j in range(nf)]
    ctx.ensure("first block row of the full system:  W u - D^T y = r1", z3.And(*[Wd[j] * u[j] - sum(D[i][j] * y[i] for i in range(nc)) == r1[j] for j in range(nf)]))
    ctx.ensure("second block row of the full system:  D u + C y = r2", z3.And(*[sum(D[i][j] * u[j] for j in range(nf)) + sum(C[i][k] * y[k] for k in range(nc)) == r2[i] for i in range(nc)]))


@ob("C08.schur_code", kind="B", cases=lambda tier: [dict(shape=s) for s in _shapes(tier)], funcs=FUNCS, samples=(1, 2), tol=1e-10,
    cite="Schur complement on the diagonal flux block; removal of the pinned pressure row/column by editing CSC arrays",
    note="bounded per grid shape (thorough: complete C07 range): entry-by-entry comparison with dense linear algebra, random positive weights over three decades")
def c08_schur_code(ctx, shape):
    rng = np.random.default_rng(ctx.rng.randrange(1 << 30))
    grid, h = grid_of(shape)
    w = solver("newton", grid, base_options(formulation="pressure"))
    nf, nc = grid.num_faces, grid.num_cells
    for rep in range(2):
        J, r, weights = system(w, rng)
        Jd = J.toarray()
        Wm = Jd[:nf, :nf]
        Dm = Jd[nf:, :nf]
        Cm = Jd[nf:, nf:]
        red, rres, Jinv = w.eliminate_flux(J, r)
        want = Cm + Dm @ np.diag(1.0 / np.diag(Wm)) @ Dm.T
        ctx.ensure("eliminate_flux: reduced matrix == C + D W^-1 D^T", bool(np.allclose(red.toarray(), want, rtol=1e-12, atol=1e-12)))
        ctx.ensure("eliminate_flux: reduced rhs == r2 - D W^-1 r1", bool(np.allclose(rres, r[nf:] - Dm @ (r[:nf] / np.diag(Wm)), rtol=1e-12, atol=1e-12)))
        ctx.ensure("eliminate_flux: inverse flux block", bool(np.allclose(Jinv.diagonal(), 1.0 / np.diag(Wm))))
        # pressure-only reduction: remove pinned row/column and the multiplier row/column
        full, fres = w.eliminate_lagrange_multiplier(sps.csc_matrix(red), rres)
        keep = [i for i in range(nc) if i != w.constrained_cell_flat_index]
        ctx.ensure("eliminate_lagrange_multiplier: matrix == reduced matrix without pinned row/column and multiplier row/column, entry by entry",
                   full.shape == (nc - 1, nc - 1) and bool(np.allclose(full.toarray(), want[np.ix_(keep, keep)], rtol=1e-12, atol=1e-12)))
        ctx.ensure("eliminate_lagrange_multiplier: rhs == reduced rhs on the kept cells", bool(np.allclose(fres, rres[keep])))
        ctx.ensure("index maps: kept cells", list(w.fully_reduced_system_indices) == keep and list(w.fully_reduced_system_indices_full) == [nf + i for i in keep])
        # flux update
        yv = rng.standard_normal(nc + 1)
        sol = np.concatenate([np.zeros(nf), yv])
        w.matrix_flux_inv = Jinv
        upd = w.compute_flux_update(sol, r)
        ctx.ensure("compute_flux_update == W^-1 (r1 + D^T y)", bool(np.allclose(upd, (r[:nf] + Dm.T @ yv) / np.diag(Wm), rtol=1e-12, atol=1e-12)))
        ctx.tick()


# flux_reduced + stationary AMG on the fixed systems of each shape above max_coarse: the labels that fail on the pinned tree (known finding)
# (with maxiter=5000 the stationary iteration converges on every other fixed system, after up to ~1200 cycles; on this one it diverges to NaN)
_SYSTEM_SEEDS = {(12, 12): 3}
KNOWN_AMG_FAILURES: dict = {(12, 12): (
    "system 0, ('flux_reduced', 'amg'): solution satisfies the full system",
    "system 0, ('flux_reduced', 'amg'): multiplier vanishes (zero-mean mass source)",
    "system 0: ('flux_reduced', 'amg') agrees with the direct full solve",
    "('flux_reduced', 'amg'): reuse_solver=True from the first call on a fresh object solves the system",
)}


def _solve_cases(tier):
    out = [dict(shape=s, scale=1.0) for s in (_shapes(tier) if tier != "quick" else [(5,), (3, 2), (1, 4), (4, 4), (2, 2, 2), (2, 1, 3), (11, 10)])]
    if tier != "quick":
        out += [dict(shape=s, scale=1.0) for s in [(11, 10), (12, 12), (16, 18), (7, 8, 6)]]        # above pyamg's max_coarse: multi-level hierarchies
    # fine physical resolution: right-hand sides of tiny magnitude (absolute tolerances must not be mistaken for relative ones)
    out += [dict(shape=s, scale=1e-4) for s in [(4, 4), (3, 2, 2)]]
    return out


@ob("C08.solve", kind="B", cases=_solve_cases, funcs=FUNCS, samples=(1, 2), tol=1e-6,
    cite="yields the same flux, pressure and multiplier up to solver tolerance, and that solution satisfies the original full system ... reuse of a cached factorisation across successive systems",
    note="bounded: every documented (formulation, back end); convergence of AMG / CG to tolerance is not decidable by contract")
def c08_solve(ctx, shape, scale):
    grid, h = grid_of(shape, scale=scale)
    big = grid.num_cells + 1 > 100          # pyamg's max_coarse: above it the iterative back ends really iterate
    # above max_coarse the systems are FIXED per shape (not drawn from VERIF_SEED): the recorded finding lists, by system, where the
    # stationary AMG iteration fails on the flux-eliminated saddle point, so that any other failing input is still reported
    import zlib
    rng = np.random.default_rng(ctx.rng.randrange(1 << 30))
    rng_sys = np.random.default_rng(_SYSTEM_SEEDS.get(tuple(shape), zlib.crc32(repr(tuple(shape)).encode()))) if big else rng
    combos = [(f, b) for f in FORMULATIONS for b in BACKENDS[f]]
    # history: solver objects for a grid of the SAME shape but other voxel sizes were built and used earlier in this process
    from vf import frame
    before = frame.snapshot(["darsia.measure.wasserstein", "darsia.utils.fv", "darsia.utils.grid"])
    g_other, _ = grid_of(shape, scale=scale * 3.0)
    for c in combos:
        w_other = solver("newton", g_other, base_options(formulation=c[0], linear_solver=c[1]))
        Jo, ro, _ = system(w_other, rng)
        with warnings.catch_warnings():
            warnings.simplefilter("ignore")
            w_other.linear_solve(Jo, ro)
    ws = {c: solver("newton", grid, base_options(formulation=c[0], linear_solver=c[1], linear_solver_options={"rtol": 1e-11, "atol": 1e-13 if c[1] == "amg" else 0.0, "maxiter": 5000 if c[1] == "amg" else 500})) for c in combos}
    w0 = ws[("full", "direct")]
    systems = [system(w0, rng_sys) for _ in range(3)]
    ref = []
    bad_known, bad_other = [], []
    listed_amg = KNOWN_AMG_FAILURES.get(tuple(shape), ())

    def ens(label, cond, combo=None):
        ctx.ensure(label, cond)
        if not cond:
            known = big and combo is not None and combo[0] == "flux_reduced" and (combo[1] == "cg" or (combo[1] == "amg" and label in listed_amg))
            (bad_known if known else bad_other).append(label)
    for k, (J, r, _) in enumerate(systems):
        sols = {}
        for c, w in ws.items():
            with warnings.catch_warnings():
                warnings.simplefilter("ignore")
                x, _ = w.linear_solve(J.copy(), r.copy(), reuse_solver=False)
            sols[c] = x
            ctx.tick()
            nr = max(1.0, float(np.linalg.norm(r)))
            ens(f"system {k}, {c}: solution satisfies the full system", float(np.linalg.norm(J @ x - r)) <= 1e-6 * nr, c)
            ens(f"system {k}, {c}: multiplier vanishes (zero-mean mass source)", abs(x[-1]) <= 1e-6 * nr, c)
        x0 = sols[("full", "direct")]
        for c, x in sols.items():
            ens(f"system {k}: {c} agrees with the direct full solve", float(np.linalg.norm(x - x0)) <= 1e-5 * max(1.0, float(np.linalg.norm(x0))), c)
        ref.append(x0)
    # recorded known finding: the flux-eliminated system keeps the multiplier row (indefinite saddle point); AMG-preconditioned CG does not
    # converge on it once the hierarchy has more than one level (> 100 unknowns); stationary AMG converges slowly on most systems and diverges
    # on some (listed by system in KNOWN_AMG_FAILURES - any other failing amg input is reported)
    ctx.witness("flux_reduced_iterative_above_100_unknowns", bool(bad_known) and not bad_other)
    ctx.ensure("no module- or class-level state written by building / using solver objects (frame)",
               frame.diff(before, frame.snapshot(["darsia.measure.wasserstein", "darsia.utils.fv", "darsia.utils.grid"])) == [])
    # reuse of a cached factorisation: same matrix, successive right-hand sides
    J, r, _ = systems[0]
    for c in combos:
        # a fresh object whose very first solve already asks for reuse (for r in rhss: linear_solve(J, r, reuse_solver=True))
        wf = solver("newton", grid, base_options(formulation=c[0], linear_solver=c[1], linear_solver_options={"rtol": 1e-11, "atol": 1e-13 if c[1] == "amg" else 0.0, "maxiter": 5000 if c[1] == "amg" else 500}))
        for rr in (r, systems[1][1]):
            with warnings.catch_warnings():
                warnings.simplefilter("ignore")
                xf, _ = wf.linear_solve(J.copy(), rr.copy(), reuse_solver=True)
            ens(f"{c}: reuse_solver=True from the first call on a fresh object solves the system", float(np.linalg.norm(J @ xf - rr)) <= 1e-6 * max(1.0, float(np.linalg.norm(rr))), c)
    for c in (("full", "direct"), ("flux_reduced", "direct"), ("pressure", "direct")):
        w = ws[c]
        w.linear_solve(J.copy(), r.copy(), reuse_solver=False)
        r2 = systems[1][1]
        x2, _ = w.linear_solve(J.copy(), r2.copy(), reuse_solver=True)
        ctx.ensure(f"{c}: reusing the factorisation for a new right-hand side of the same matrix solves that system", float(np.linalg.norm(J @ x2 - r2)) <= 1e-6 * max(1.0, float(np.linalg.norm(r2))))


@ob("C08.options", kind="T", cases=[dict(ls="cg"), dict(ls="amg")], funcs=FUNCS + ["darsia.measure.wasserstein:VariationalWassersteinDistance.setup_cg_solver",
                                                                               "darsia.measure.wasserstein:VariationalWassersteinDistance.setup_amg_solver"], samples=(1, 1),
    cite="with the direct, algebraic-multigrid or preconditioned conjugate-gradient back-end ... up to solver tolerance",
    note="configuration plumbing: the tolerances and iteration limit the user passes reach the back end under the documented names (distinct values per key)")
def c08_options(ctx, ls):
    grid, h = grid_of((3, 3))
    given = {"rtol": 3e-9, "atol": 7e-13, "maxiter": 123}
    w = solver("newton", grid, base_options(formulation="pressure", linear_solver=ls, linear_solver_options=dict(given)))
    rng = np.random.default_rng(1)
    J, r, _ = system(w, rng)
    w.linear_solve(J, r)
    so = w.solver_options
    if ls == "cg":
        ctx.ensure("cg: relative tolerance, absolute tolerance and iteration limit are the user's", so.get("rtol") == given["rtol"] and so.get("atol") == given["atol"] and so.get("maxiter") == given["maxiter"])
        w2 = solver("newton", grid, base_options(formulation="pressure", linear_solver="cg", linear_solver_options={}))
        w2.linear_solve(J, r)
        ctx.ensure("cg defaults: rtol 1e-6, atol 0 (documented)", w2.solver_options.get("rtol") == 1e-6 and w2.solver_options.get("atol") == 0)
    else:
        ctx.ensure("amg: tolerance and iteration limit are the user's", so.get("tol") == given["atol"] and so.get("maxiter") == given["maxiter"])


@ob("C08.lemmas", kind="L", cases=[{}], samples=(0, 0), funcs=[],
    cite="that solution satisfies the original full system", note="Lean 4 + Mathlib (lemmas/DarsiaLemmas.lean): schur_full_system over arbitrary additive groups (all sizes), complementing the generic-entry z3/Groebner lemma C08.schur")
def c08_lemmas(ctx):
    from vf.lean import check
    res = check()
    ctx.ensure("lemma file compiles with Lean 4 + Mathlib without errors, sorry, axioms or admits: " + res["output"][:300], res["ok"])
    ctx.ensure("lemma present", "schur_full_system" in res["theorems"])


# ---- the real linear_solve on symbolic systems (back end H) -------------------------------------------------------------------

from vf import symsparse


def sparse_api(ctx):
    """the constructors used to assemble the test system: scipy's own in the concrete evaluator, the SymCSC model in the proof"""
    if ctx.sym:
        return dict(diags=symsparse.diags_factory(ctx), bmat=symsparse.bmat_factory(ctx))
    return dict(diags=sps.diags, bmat=sps.bmat)


def symbolic_system(ctx, w, tag=""):
    """J = [[W M_f, -D^T, 0], [D, 0, -c^T], [0, c, 0]] with an ARBITRARY positive face weighting W (symbols), arbitrary flux right-hand
    side and an arbitrary zero-mean mass source — assembled exactly as WassersteinDistanceNewton.jacobian does."""
    nf, nc = int(w.grid.num_faces), int(w.grid.num_cells)
    api = sparse_api(ctx)
    wts = ctx.array("w" + tag, (nf,), pos=True, sample=(0.05, 20.0))
    J = api["bmat"]([[api["diags"](wts) @ w.mass_matrix_faces, -w.div.T, None], [w.div, None, -w.pressure_constraint.T],
                     [None, w.pressure_constraint, None]], format="csc")
    f = ctx.array("f" + tag, (nc - 1,), sample=(-1.0, 1.0))
    f = np.concatenate([f, [-sum(f)]])
    r = np.concatenate([ctx.array("r" + tag, (nf,), sample=(-1.0, 1.0)), w.mass_matrix_cells.dot(f), np.zeros(1)])
    return J, r


def _ls_cases(tier):
    shapes = [(2,), (5,), (3, 2), (1, 4), (4, 1), (2, 2, 2), (2, 1, 3)] if tier == "quick" else \
        [(n,) for n in range(2, 9)] + [s for s in itertools.product(range(1, 5), repeat=2) if np.prod(s) > 1] + \
        [s for s in itertools.product(range(1, 4), repeat=3) if 1 < np.prod(s) <= 18]
    out = [dict(shape=s, form=f, history="fresh") for s in shapes for f in FORMULATIONS]
    out += [dict(shape=s, form=f, history=h) for s in ((3, 2), (4,)) for f in FORMULATIONS for h in ("other-system-before", "reuse-factorisation", "reuse-on-first-call", "rejected-call-between")]
    return out


@ob("C08.linear_solve", cases=_ls_cases, mods=["darsia.measure.wasserstein", "darsia.utils.fv"], stubs=symsparse.stubs(), funcs=FUNCS, samples=(2, 4),
    budget={"timeout_ms": 20000, "groebner_s": 40, "arith_solver": 2, "decide_ms": 3000}, tol=1e-7,
    assumes=["sparse-matrix model (vf/symsparse.py): value semantics and exact-zero pruning of scipy.sparse, entry order within a column not modelled; validated by C08.dep_sparse",
             "splu(M).solve(b) returns x with M x = b exactly (direct back end); AMG / CG are iterative and stay bounded (C08.solve)"],
    cite="For every grid shape and every positive face weighting, solving a mixed flux-pressure system through the full, the flux-eliminated or the "
         "pressure-only formulation ... that solution satisfies the original full system",
    note="the REAL linear_solve / eliminate_flux / eliminate_lagrange_multiplier / compute_flux_update (incl. the CSC-array surgery and its setup) executed on a "
         "system with symbolic positive face weights and symbolic right-hand side; only the factorisation is an assumed contract.  Per shape, ALL weights / sources")
def c08_linear_solve(ctx, shape, form, history):
    grid, h = grid_of(shape)
    w = solver("newton", grid, base_options(formulation=form, linear_solver="direct"))
    nf, nc = int(grid.num_faces), int(grid.num_cells)
    if history == "other-system-before":
        J0, r0 = symbolic_system(ctx, w, "p")
        w.linear_solve(J0, r0.copy())
    J, r = symbolic_system(ctx, w)
    # "reuse-on-first-call": a fresh object asked to reuse a factorisation it does not have yet must set one up for THIS matrix
    x, stats = w.linear_solve(J, r.copy(), reuse_solver=(history == "reuse-on-first-call"))
    if history == "rejected-call-between":
        # a call with ANOTHER weighting and a right-hand side the pressure formulation documents it refuses (non-zero constraint entry) fails in between;
        # afterwards the factorisation of the first matrix is re-used for a new right-hand side of that first matrix
        Jb, rb = symbolic_system(ctx, w, "b")
        rb = rb.copy()
        rb[-1] = 1.0
        refused = False
        try:
            xb, _ = w.linear_solve(Jb, rb.copy())
        except Exception:      # noqa: BLE001 - NotImplementedError in the pressure formulation; the other formulations simply solve it
            refused = True
        if not refused:
            # a system with a non-zero constraint value is either refused or SOLVED: what is returned satisfies every row of it
            resb = Jb.dot(xb) - rb
            for i in range(len(rb)):
                ctx.ensure(f"system with constraint value 1 was served: row {i} of J x = r holds", eq(resb[i], 0.0))
    if history in ("reuse-factorisation", "reuse-on-first-call") or (history == "rejected-call-between" and refused):
        # documented reuse: same matrix, new right-hand side, cached factorisation
        f2 = ctx.array("g", (nc - 1,), sample=(-1.0, 1.0))
        r = np.concatenate([ctx.array("s", (nf,), sample=(-1.0, 1.0)), w.mass_matrix_cells.dot(np.concatenate([f2, [-sum(f2)]])), np.zeros(1)])
        x, stats = w.linear_solve(J, r.copy(), reuse_solver=True)
    elif history == "rejected-call-between":
        x, stats = w.linear_solve(J, r.copy())            # the call in between was served (it set up its own factorisation): solve again without reuse
    res = J.dot(x) - r
    for i in range(len(r)):
        ctx.ensure(f"row {i} of the original full system J x = r ({'flux' if i < nf else 'mass balance' if i < nf + nc else 'pressure constraint'})", eq(res[i], 0.0))
    ctx.ensure("pressure pinned at the reference cell", eq(x[nf + w.constrained_cell_flat_index], 0.0))
    ctx.ensure("the multiplier vanishes for a zero-mean mass source", eq(x[-1], 0.0))
    ctx.ensure("the right-hand side handed in is not modified", eq(r[-1], 0.0))


@ob("C08.dep_sparse", kind="B", cases=[dict(n=n) for n in (2, 3, 5)], samples=(6, 30), funcs=[], tol=1e-12,
    cite="(validation of an assumed dependency contract)", note="the SymCSC model against the installed scipy.sparse on random matrices with forced zeros and cancellations")
def c08_dep_sparse(ctx, n):
    rng = np.random.default_rng(ctx.rng.randrange(1 << 30))
    from vf.symsparse import SymCSC, bmat_factory, csc_matrix_factory, diags_factory

    def rnd(m, k):
        a = rng.integers(-2, 3, size=(m, k)).astype(float)
        a[rng.random((m, k)) < 0.4] = 0.0
        return a
    A, B, C = rnd(n, n), rnd(n, n), rnd(n, n + 1)
    sA, sB, sC = sps.csc_matrix(A), sps.csc_matrix(B), sps.csc_matrix(C)
    mk = csc_matrix_factory(ctx)
    mA, mB, mC = mk(A), mk(B), mk(C)

    def pattern(m):
        c = m.tocoo()
        return {(int(i), int(j)) for i, j in zip(c.row, c.col)}

    def same(label, real, model):
        ctx.tick()
        ctx.ensure(f"{label}: values", bool(np.array_equal(np.asarray(real.toarray(), dtype=float), np.asarray(model.toarray(), dtype=float))))
        ctx.ensure(f"{label}: stored pattern", pattern(real) == set(model.entries()) and real.nnz == model.nnz)
        ctx.ensure(f"{label}: format", real.format == model.format)
    same("constructor from dense", sA, mA)
    same("A + B", sA + sB, mA + mB)
    same("A - A (everything cancels)", sA - sA, mA - mA)
    same("A - B", sA - sB, mA - mB)
    same("A @ B", sA @ sB, mA @ mB)
    same("A.dot(C)", sA.dot(sC), mA.dot(mC))
    same("A.T", sA.T, mA.T)
    same("A.T @ B", sA.T @ sB, mA.T @ mB)
    same("A @ B.T", sA @ sB.T, mA @ mB.T)
    same("A + B.T", sA + sB.T, mA + mB.T)
    same("-A", -sA, -mA)
    same("2.5 * A", 2.5 * sA, 2.5 * mA)
    same("slice", sA[slice(0, n - 1), slice(1, n)], mA[slice(0, n - 1), slice(1, n)])
    same("slice copy", sC[slice(1, n), slice(0, n)].copy(), mC[slice(1, n), slice(0, n)].copy())
    d = rng.integers(-1, 3, size=n).astype(float)
    sd, md = sps.diags(d), diags_factory(ctx)(d)
    same("diags(d) @ A", sd @ sA, md @ mA)
    same("A @ diags(d)", sA @ sd, mA @ md)
    same("diags(d).dot(A.T)", sd.dot(sA.T), md.dot(mA.T))
    same("A.dot(diags(d).dot(A.T))", sA.dot(sd.dot(sA.T)), mA.dot(md.dot(mA.T)))
    same("diags(d, format=csc)", sps.diags(d, format="csc"), diags_factory(ctx)(d, format="csc"))
    same("bmat", sps.bmat([[sd @ sA, -sC], [sC.T, None]], format="csc"), bmat_factory(ctx)([[md @ mA, -mC], [mC.T, None]], format="csc"))
    row, col = rng.integers(0, n, 8), rng.integers(0, n, 8)
    dat = rng.integers(-2, 3, 8).astype(float)
    same("coo constructor with duplicates", sps.csc_matrix((dat, (row, col)), shape=(n, n)), mk((dat, (row, col)), shape=(n, n)))
    same("(data, indices, indptr) constructor", sps.csc_matrix((sA.data, sA.indices, sA.indptr), shape=sA.shape), mk((sA.data, sA.indices, sA.indptr), shape=sA.shape))
    v = rng.standard_normal(n)
    ctx.ensure("matvec", bool(np.allclose(sA.dot(v), np.asarray(mA.dot(v), dtype=float))))
    ctx.ensure("diagonal", bool(np.array_equal(sA.diagonal(), np.asarray(mA.diagonal(), dtype=float))))
    ctx.ensure("mixed operands (model @ scipy)", bool(np.array_equal((sA @ sB).toarray(), np.asarray((mA @ sB).toarray(), dtype=float))))


@ob("C08.dep_splu", kind="B", samples=(2, 6), funcs=[], tol=1e-11, cite="(validation of an assumed dependency contract)",
    note="splu(M).solve(b): M x = b, reuse for successive right-hand sides, function of its arguments - against the installed scipy (SuperLU)")
def c08_dep_splu(ctx):
    from contracts import deps_validation as dv
    dv.dep_splu(ctx)
