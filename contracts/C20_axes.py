"""C20 — matrix (i, j, k) and Cartesian (x, y, z) axis conventions are coherent in every dimension."""
import numpy as np

import darsia
from darsia.image import indexing as ix
from vf.core import and_, eq, floor_, ob, product_cases

MODS = ["darsia.image.coordinatesystem", "darsia.image.indexing", "darsia.utils.point", "darsia.image.image",
        "darsia.signals.reduction.dimensionreduction"]
FUNCS = ["darsia.image.indexing:to_matrix_indexing", "darsia.image.indexing:to_cartesian_indexing",
         "darsia.image.indexing:interpret_indexing", "darsia.image.indexing:matrixToCartesianIndexing",
         "darsia.image.indexing:cartesianToMatrixIndexing", "darsia.image.image:Image.slice",
         "darsia.signals.reduction.dimensionreduction:AxisReduction.__init__",
         "darsia.signals.reduction.dimensionreduction:AxisReduction.__call__",
         "darsia.signals.reduction.dimensionreduction:reduce_axis",
         "darsia.image.coordinatesystem:CoordinateSystem.coordinate"]


@ob("C20.tables", kind="T", cases=product_cases(dim=(1, 2, 3)), funcs=FUNCS[:3], samples=(1, 1),
    cite="translating an axis there and back is the identity; the helpers agree with each other ... about which axis "
         "corresponds to which and whether it is reversed",
    note="finite tables: the real functions are evaluated on their complete domain (every dimension, axis, str and int form)")
def c20_tables(ctx, dim):
    cart, mat = "xyz"[:dim], "ijk"[:dim]
    for a_i, a in enumerate(cart):
        for form in (a, a_i):
            m = ix.to_matrix_indexing(form, cart)
            ctx.ensure(f"to_matrix_indexing({form!r}, {cart!r}) is a matrix axis name", m in mat)
            ctx.ensure(f"to_cartesian_indexing(to_matrix_indexing({form!r})) == {a!r}", ix.to_cartesian_indexing(m, mat) == a)
            ctx.ensure(f"to_cartesian_indexing by int(to_matrix_indexing({form!r})) == {a!r}", ix.to_cartesian_indexing(mat.index(m), mat) == a)
            pos, rev = ix.interpret_indexing(a, mat)
            ctx.ensure(f"interpret_indexing({a!r}, {mat!r}) position agrees with to_matrix_indexing", mat[pos] == m)
            # reversal flags of the two directions of interpret_indexing agree
            pos2, rev2 = ix.interpret_indexing(mat[pos], cart)
            ctx.ensure(f"interpret_indexing is an involution at {a!r}", pos2 == a_i and rev2 == rev)
    for m_i, m in enumerate(mat):
        for form in (m, m_i):
            a = ix.to_cartesian_indexing(form, mat)
            ctx.ensure(f"to_cartesian_indexing({form!r}, {mat!r}) is a Cartesian axis name", a in cart)
            ctx.ensure(f"to_matrix_indexing(to_cartesian_indexing({form!r})) == {m!r}", ix.to_matrix_indexing(a, cart) == m)
            ctx.ensure(f"to_matrix_indexing by int(to_cartesian_indexing({form!r})) == {m!r}", ix.to_matrix_indexing(cart.index(a), cart) == m)
            pos, rev = ix.interpret_indexing(m, cart)
            ctx.ensure(f"interpret_indexing({m!r}, {cart!r}) position agrees with to_cartesian_indexing", cart[pos] == a)
    # both tables are permutations
    ctx.ensure("to_matrix_indexing is a bijection", sorted(ix.to_matrix_indexing(a, cart) for a in cart) == sorted(mat))
    ctx.ensure("to_cartesian_indexing is a bijection", sorted(ix.to_cartesian_indexing(m, mat) for m in mat) == sorted(cart))
    # identity cases of interpret_indexing (axis named in the indexing's own alphabet)
    for k, m in enumerate(mat):
        ctx.ensure(f"interpret_indexing({m!r}, {mat!r}) == ({k}, False)", ix.interpret_indexing(m, mat) == (k, False))
    for k, a in enumerate(cart):
        ctx.ensure(f"interpret_indexing({a!r}, {cart!r}) == ({k}, False)", ix.interpret_indexing(a, cart) == (k, False))


@ob("C20.coordsys", cases=product_cases(dim=(1, 2, 3)), mods=MODS, funcs=FUNCS,
    cite="agree ... with the coordinate system about which axis corresponds to which and whether it is reversed")
def c20_coordsys(ctx, dim):
    cart, mat = "xyz"[:dim], "ijk"[:dim]
    n = ctx.ints("n", dim, lo=1, sample=(1, 6))
    d = ctx.reals("d", dim, pos=True, sample=(0.1, 30.0))
    o = ctx.reals("o", dim, sample=(-50.0, 50.0))
    img = darsia.Image(ctx.shape_array(n), space_dim=dim, scalar=True, dimensions=list(d), origin=list(o))
    cs = img.coordinatesystem
    v = ctx.ints("v", dim, sample=(-3, 8))
    c0 = cs.coordinate(list(v))
    for m_i, m in enumerate(mat):
        v1 = list(v)
        v1[m_i] = v1[m_i] + 1
        c1 = cs.coordinate(v1)
        a = ix.to_cartesian_indexing(m, mat)
        a_i = cart.index(a)
        pos, rev = ix.interpret_indexing(a, mat)
        h = d[m_i] / n[m_i]
        step = [0] * dim
        step[a_i] = -h if rev else h
        ctx.ensure(f"a step along matrix axis {m} moves along Cartesian axis to_cartesian_indexing({m!r}) = {a}, reversed iff interpret_indexing says so",
                   and_(pos == m_i, eq([c1[k] - c0[k] for k in range(dim)], step)))


def _meta(dim):
    dims = [3.0, 2.0, 5.0][:dim]
    org = [1.5, -2.25, 0.75][:dim]
    return dims, org


SLICE_SHAPES = {2: (3, 4), 3: (2, 3, 4)}
DEGENERATE_SHAPES = {2: [(1, 4), (3, 1), (1, 1)], 3: [(1, 3, 2), (2, 1, 1), (3, 2, 1)]}
SLICE_CASES = [dict(dim=d, payload=p) for d in (2, 3) for p in ("scalar", "vector")] + [dict(dim=d, payload="scalar", shape=s) for d in (2, 3) for s in DEGENERATE_SHAPES[d]]
REDUCE_CASES = [dict(dim=d, mode=m) for d in (2, 3) for m in ("sum", "average")] + [dict(dim=d, mode="average", shape=s) for d in (2, 3) for s in DEGENERATE_SHAPES[d]]


@ob("C20.slice", cases=SLICE_CASES, mods=MODS, funcs=FUNCS, samples=(1, 2),
    cite="Addressing an axis of an image by its Cartesian name or by its matrix index (in slicing ...) selects the same data")
def c20_slice(ctx, dim, payload, shape=None):
    shape = shape or SLICE_SHAPES[dim]
    dims, org = _meta(dim)
    full = list(shape) + ([] if payload == "scalar" else [2])
    arr = ctx.array("a", full)
    img = darsia.Image(arr, space_dim=dim, scalar=payload == "scalar", dimensions=list(dims), origin=list(org))
    cs = img.coordinatesystem
    cart, mat = "xyz"[:dim], "ijk"[:dim]
    for a_i, a in enumerate(cart):
        m_i, rev = ix.interpret_indexing(a, mat)
        for c in range(shape[m_i]):
            centre = [0.5] * dim
            centre[m_i] = c + 0.5
            coord = cs.coordinate(np.array(centre))
            by_name = img.slice(float(coord[a_i]), a)
            by_index = img.slice(c, m_i)
            want = np.take(arr, c, axis=m_i)
            same = lambda x, y: x.shape == y.shape and (all(p is q for p, q in zip(x.flat, y.flat)) if ctx.sym else bool(np.all(x == y)))
            ctx.ensure(f"slice({a!r} through voxel {c}) is the data of matrix axis {m_i} at index {c}", same(by_name.img, want))
            ctx.ensure(f"slice by index ({c}, axis {m_i}) is that data too", same(by_index.img, want))
            ctx.ensure(f"slice by name and by index: same metadata",
                       and_(eq(list(by_name.origin), list(by_index.origin)), eq(list(by_name.dimensions), list(by_index.dimensions)),
                            by_name.space_dim == dim - 1 and by_index.space_dim == dim - 1 and by_name.indexing == by_index.indexing))


@ob("C20.reduce", cases=REDUCE_CASES, mods=MODS, funcs=FUNCS, samples=(1, 2),
    cite="Addressing an axis of an image by its Cartesian name or by its matrix index (... in reduction) selects the same data")
def c20_reduce(ctx, dim, mode, shape=None):
    shape = shape or SLICE_SHAPES[dim]
    arr = ctx.array("a", shape)
    d = ctx.reals("d", dim, pos=True, sample=(0.1, 30.0))
    o = ctx.reals("o", dim, sample=(-50.0, 50.0))
    cart, mat = "xyz"[:dim], "ijk"[:dim]
    for a_i, a in enumerate(cart):
        m_i, rev = ix.interpret_indexing(a, mat)
        mk = lambda: darsia.Image(arr.copy(), space_dim=dim, scalar=True, dimensions=list(d), origin=list(o))
        r_name = darsia.reduce_axis(mk(), a, mode=mode)
        r_index = darsia.reduce_axis(mk(), m_i, mode=mode)
        red_n, red_i = darsia.AxisReduction(a, dim), darsia.AxisReduction(m_i, dim)
        ctx.ensure(f"AxisReduction({a!r}) and AxisReduction({m_i}) address the same matrix and Cartesian axis",
                   red_n.index == red_i.index == m_i and red_n.axis == red_i.axis == a_i)
        want = np.sum(arr, axis=m_i)
        if mode == "average":
            want = want / shape[m_i]
        ctx.ensure(f"reduce_axis({a!r}) == reduce_axis({m_i}) == {mode} over matrix axis {m_i}",
                   and_(eq(r_name.img, want), eq(r_index.img, want)))
        ctx.ensure(f"reduce_axis({a!r}) and reduce_axis({m_i}): same metadata",
                   and_(eq(list(r_name.origin), list(r_index.origin)), eq(list(r_name.dimensions), list(r_index.dimensions))))


LAYOUT_SHAPES = {1: [(4,)], 2: [(2, 3), (3, 2), (1, 4)], 3: [(2, 3, 4), (3, 1, 2)]}


@ob("C20.layout", cases=[dict(dim=d, shape=s) for d in (1, 2, 3) for s in LAYOUT_SHAPES[d]], mods=MODS, funcs=FUNCS, samples=(1, 2),
    cite="the array re-indexing helpers between matrix and Cartesian layout are mutual inverses that place each voxel where "
         "the coordinate system says it is",
    note="cartesianToMatrixIndexing documents 'Assumes 2d images': the inverse clause is stated for dim 2 only")
def c20_layout(ctx, dim, shape):
    arr = ctx.array("a", shape)
    dims, org = _meta(dim)
    img = darsia.Image(arr, space_dim=dim, scalar=True, dimensions=list(dims), origin=list(org))
    cs = img.coordinatesystem
    cartarr = ix.matrixToCartesianIndexing(arr, dim)
    cart, mat = "xyz"[:dim], "ijk"[:dim]
    # expected extents: Cartesian axis a has the extent of its matrix axis
    ext = [shape[ix.interpret_indexing(a, mat)[0]] for a in cart]
    ctx.ensure("Cartesian layout extents", tuple(cartarr.shape) == tuple(ext))
    mn = [float(cs.min_coordinate[k]) for k in range(dim)]
    ok = True
    for v in np.ndindex(*shape):
        c = cs.coordinate(np.array([x + 0.5 for x in v]))
        idx = []
        for a_i, a in enumerate(cart):
            m_i, _ = ix.interpret_indexing(a, mat)
            h = dims[m_i] / shape[m_i]
            idx.append(int(np.floor((float(c[a_i]) - mn[a_i]) / h)))
        got = cartarr[tuple(idx)] if tuple(cartarr.shape) == tuple(ext) else None
        ok = ok and (got is arr[v] if ctx.sym else got == arr[v])
    ctx.ensure("matrixToCartesianIndexing places every voxel at its Cartesian grid position (x, y, z increasing)", ok)
    if dim == 2:
        back = ix.cartesianToMatrixIndexing(cartarr)
        ctx.ensure("cartesianToMatrixIndexing(matrixToCartesianIndexing(a)) is a",
                   back.shape == arr.shape and all((p is q) if ctx.sym else (p == q) for p, q in zip(back.flat, arr.flat)))
        c2 = ctx.array("c", ext)
        fwd = ix.matrixToCartesianIndexing(ix.cartesianToMatrixIndexing(c2), 2)
        ctx.ensure("matrixToCartesianIndexing(cartesianToMatrixIndexing(c)) is c",
                   fwd.shape == c2.shape and all((p is q) if ctx.sym else (p == q) for p, q in zip(fwd.flat, c2.flat)))


@ob("C20.layout_payload", cases=[dict(dim=d, shape=s, trailing=t) for d in (1, 2, 3) for s in ({1: [(3,)], 2: [(2, 3), (1, 2)], 3: [(2, 3, 2), (1, 2, 3), (2, 2, 2)]}[d]) for t in ((2,), (3,), (1,), (2, 2))],
    mods=MODS, funcs=FUNCS, samples=(1, 2),
    cite="the array re-indexing helpers between matrix and Cartesian layout ... place each voxel where the coordinate system says it is (vector-valued, colour and time-series arrays: "
         "the payload axes stay behind the spatial ones)",
    note="the same helper on arrays with trailing non-spatial axes must re-index the spatial axes exactly as it does for a scalar array and leave the payload of each voxel in place "
         "(after seed C20_g: an axis moved to the LAST position instead of the last SPATIAL position)")
def c20_layout_payload(ctx, dim, shape, trailing):
    arr = ctx.array("a", tuple(shape) + tuple(trailing))
    got = ix.matrixToCartesianIndexing(arr, dim)
    # reference: the helper applied to every payload component separately (scalar arrays: covered by C20.layout)
    ref = None
    for t in np.ndindex(*trailing):
        comp = ix.matrixToCartesianIndexing(arr[(Ellipsis,) + t], dim)
        if ref is None:
            ref = np.empty(tuple(comp.shape) + tuple(trailing), dtype=object)
        ref[(Ellipsis,) + t] = comp
    ctx.ensure("spatial axes re-indexed as for a scalar array, payload axes untouched and trailing", tuple(got.shape) == tuple(ref.shape))
    if tuple(got.shape) == tuple(ref.shape):
        ctx.ensure("every (voxel, payload component) lands where the scalar helper puts that voxel", all((p is q) if ctx.sym else (p == q) for p, q in zip(got.flat, ref.flat)))
    if dim == 2:
        back = ix.cartesianToMatrixIndexing(got)
        ctx.ensure("cartesianToMatrixIndexing inverts it (2-D) with payload axes", back.shape == arr.shape and all((p is q) if ctx.sym else (p == q) for p, q in zip(back.flat, arr.flat)))


@ob("C20.slice_boundary", cases=[dict(dim=2, shape=(3, 4)), dict(dim=2, shape=(1, 2)), dict(dim=3, shape=(2, 3, 2))], mods=MODS, funcs=FUNCS, samples=(1, 2),
    cite="agree ... with the coordinate system about which axis corresponds to which and whether it is reversed ... Addressing an axis of an image by its Cartesian name or by its "
         "matrix index (in slicing ...) selects the same data",
    note="cut coordinates lying EXACTLY on a voxel face (exactly representable geometry) and a quarter voxel off it: slicing by Cartesian name selects the layer the coordinate system "
         "assigns to that coordinate (after seed C20_h: an own floor / mirror rule that differs from the coordinate system's on faces of reversed axes)")
def c20_slice_boundary(ctx, dim, shape):
    h = [0.5, 0.25, 1.0][:dim]
    dims = [shape[k] * h[k] for k in range(dim)]
    org = [1.5, -2.25, 0.75][:dim]
    arr = ctx.array("a", shape)
    img = darsia.Image(arr, space_dim=dim, scalar=True, dimensions=list(dims), origin=list(org))
    cs = img.coordinatesystem
    cart, mat = "xyz"[:dim], "ijk"[:dim]
    same = lambda x, y: x.shape == y.shape and (all(p is q for p, q in zip(x.flat, y.flat)) if ctx.sym else bool(np.all(x == y)))
    for a_i, a in enumerate(cart):
        m_i, rev = ix.interpret_indexing(a, mat)
        for pos in [c + off for c in range(shape[m_i] + 1) for off in (0.0, 0.25, 0.75)]:
            pt = [0.5] * dim
            pt[m_i] = pos
            coord = cs.coordinate(np.array(pt))
            idx = int(np.asarray(cs.voxel(coord))[m_i])
            if not 0 <= idx < shape[m_i]:
                continue
            by_name = img.slice(float(coord[a_i]), a)
            ctx.ensure(f"slice({float(coord[a_i])!r}, {a!r}) is layer {idx} of matrix axis {m_i} - the voxel the coordinate system assigns to the cut",
                       same(by_name.img, np.take(arr, idx, axis=m_i)))


@ob("C20.negative_axis", kind="B", cases=[dict(dim=2, payload=p) for p in ("scalar", "vector", "series")] + [dict(dim=3, payload="scalar")], funcs=FUNCS, samples=(1, 2),
    cite="Addressing an axis of an image by its Cartesian name or by its matrix index (in slicing and in reduction) selects the same data",
    note="bounded: an integer axis outside 0..dim-1 (numpy-style negative index) is either REFUSED or addresses the axis numpy would address - never silently something else "
         "(after seed C20_i: the assertion was widened to negative indices that the data operations do not normalise)")
def c20_negative_axis(ctx, dim, payload):
    rng = np.random.default_rng(ctx.rng.randrange(1 << 30))
    shape = (3, 4) if dim == 2 else (2, 3, 4)
    full = shape + ((2,) if payload == "series" else ()) + ((3,) if payload == "vector" else ())
    kw = dict(space_dim=dim, scalar=payload != "vector", dimensions=[1.5, 2.0, 0.5][:dim])
    if payload == "series":
        kw.update(series=True, time=[0.0, 1.0])
    img = darsia.Image(rng.random(full), **kw)
    for neg in range(-dim, 0):
        pos = neg + dim
        for name, call in (("reduce_axis", lambda ax: darsia.reduce_axis(img, ax)), ("slice", lambda ax: img.slice(1, ax))):
            ref = call(pos)
            try:
                got = call(neg)
            except (AssertionError, ValueError, IndexError, KeyError, NotImplementedError):
                ctx.ensure(f"{name}(axis={neg}) is refused", True)
                continue
            ctx.ensure(f"{name}(axis={neg}) accepted => same data and metadata as axis={pos}", got.img.shape == ref.img.shape and bool(np.allclose(got.img, ref.img))
                       and bool(np.allclose(got.origin, ref.origin)) and bool(np.allclose(got.dimensions, ref.dimensions)))
