"""C19 — patching tiles an image exactly (darsia.Patches)."""
import numpy as np

import darsia
from vf.core import and_, eq, implies, ite, not_, ob, or_, product_cases
from vf.sym import sym_max, sym_min

MODS = ["darsia.image.patches", "darsia.image.image", "darsia.image.coordinatesystem", "darsia.image.indexing",
        "darsia.utils.point"]
FUNCS = ["darsia.image.patches:Patches.__init__", "darsia.image.patches:Patches.assemble", "darsia.image.patches:Patches.__call__",
         "darsia.image.image:Image.subregion", "darsia.image.coordinatesystem:CoordinateSystem.num_voxels",
         "darsia.image.coordinatesystem:CoordinateSystem.voxel", "darsia.image.coordinatesystem:CoordinateSystem.coordinate"]

OVERLAPS = (0.0, 0.25, 0.5)


def _sym_case(tier):
    cs = (1, 2, 3) if tier == "quick" else (1, 2, 3, 4, 5, 6)
    return [dict(c0=a, c1=b) for a in cs for b in cs if tier != "quick" or (a, b) in ((1, 1), (1, 3), (2, 2), (3, 2), (2, 3), (3, 3))]


def _clip_len(r, L):
    return sym_min(sym_max(r, 0), L)


@ob("C19.tiling", cases=_sym_case, mods=MODS, funcs=FUNCS, samples=(2, 6), budget={"paths": 64},
    cite="the patches' interiors tile the image without gaps or double cover",
    note="symbolic image shape, physical dimensions, origin and relative overlap in [0, 1/2]; concrete patch counts")
def c19_tiling(ctx, c0, c1):
    counts = (c0, c1)
    n = ctx.ints("n", 2, lo=1, sample=(1, 14))
    d = ctx.reals("d", 2, pos=True, sample=(0.5, 20.0))
    o = ctx.reals("o", 2, sample=(-10.0, 10.0))
    rel = ctx.real("rel", lo=0, hi=0.5, sample=(0.0, 0.5))
    # precondition "patches can be built": every patch is non-empty, i.e. (count-1)*ceil(n/count) < n
    pvs = []
    for m in range(2):
        if ctx.sym:
            pv_spec = ctx.int(f"pvspec{m}")
            ctx.assume(and_(counts[m] * (pv_spec - 1) < n[m], n[m] <= counts[m] * pv_spec))     # pv_spec == ceil(n/count)
        else:
            pv_spec = -(-n[m] // counts[m])
        pvs.append(pv_spec)
        ctx.assume((counts[m] - 1) * pv_spec < n[m])
    img = darsia.Image(ctx.shape_array(n), space_dim=2, scalar=True, dimensions=list(d), origin=list(o))
    P = darsia.Patches(img, num_patches=list(counts), rel_overlap=rel)
    pv, ov = P.pv, P.ov
    for m in range(2):
        ctx.ensure(f"axis {m}: patch size is ceil(extent / count) voxels", eq(pv[m], pvs[m]))
        ctx.ensure(f"axis {m}: overlap is between 0 and the patch size", and_(ov[m] >= 0, ov[m] <= pv[m]))
    g = ctx.ints("g", 2, lo=0, sample=(0, 13))
    for m in range(2):
        ctx.assume(g[m] < n[m])
    for m in range(2):
        hits = []
        for i in range(counts[m]):
            roi = (P.rois[i][0] if m == 0 else P.rois[0][i])[m]
            rel_roi = (P.relative_rois_without_overlap[i][0] if m == 0 else P.relative_rois_without_overlap[0][i])[m]
            patch = P.patches[i][0] if m == 0 else P.patches[0][i]
            L = patch.img.shape[m]
            start = roi.start
            # numpy semantics of patch.img[rel_roi] along this axis: local indices [min(r0,L), min(r1,L))
            lo_l = _clip_len(rel_roi.start, L)
            hi_l = _clip_len(rel_roi.stop, L)
            covered = and_(start + lo_l <= g[m], g[m] < start + hi_l)
            want = and_(i * pv[m] <= g[m], g[m] < (i + 1) * pv[m])
            ctx.ensure(f"axis {m}, patch {i}: interior addresses global index g iff {i}*pv <= g < {i + 1}*pv", covered == want)
            ctx.ensure(f"axis {m}, patch {i}: data extent is the clipped ROI", eq(L, sym_max(sym_min(roi.stop, n[m]) - sym_max(roi.start, 0), 0)))
            hits.append(want)
        ctx.ensure(f"axis {m}: every index is covered by exactly one patch interior (no gap)", or_(*hits))
    # advertised corners (voxel units) delimit the interiors
    for i in range(c0):
        for j in range(c1):
            gc = P.global_corners_voxels[i][j]
            lc = P.local_corners_voxels[i][j]
            tl = [i * pv[0], j * pv[1]]
            br = [sym_min(n[0], (i + 1) * pv[0]), sym_min(n[1], (j + 1) * pv[1])]
            ctx.ensure(f"patch ({i},{j}): advertised voxel corners are top-left, bottom-left, bottom-right, top-right of the interior",
                       eq([list(r) for r in gc], [[tl[0], tl[1]], [br[0], tl[1]], [br[0], br[1]], [tl[0], br[1]]]))
            ctx.ensure(f"patch ({i},{j}): local corners are the global ones relative to the top-left corner",
                       eq([list(r) for r in lc], [[0, 0], [br[0] - tl[0], 0], [br[0] - tl[0], br[1] - tl[1]], [0, br[1] - tl[1]]]))
            # the patch is placed where its ROI says (offset embedding, via the real subregion)
            roi = P.rois[i][j]
            pc = P.patches[i][j].coordinatesystem.coordinate([0, 0])
            bc = img.coordinatesystem.coordinate([roi[0].start, roi[1].start])
            ctx.ensure(f"patch ({i},{j}): patch voxel (0,0) has the coordinate of base voxel roi.start", eq(list(pc), list(bc)))
            # centres: voxel and physical centres agree under the base coordinate system
            cv = P.global_centers_voxels[i][j]
            cc = P.global_centers_cartesian[i][j]
            ctx.ensure(f"patch ({i},{j}): advertised voxel centre is the voxel containing the advertised physical centre",
                       eq(list(cv), list(img.coordinatesystem.voxel(np.array(list(cc))))))


def _asm_cases(tier):
    if tier == "quick":
        shapes = [(2, 8), (5, 7), (6, 6), (7, 4), (1, 5), (9, 10)]
        counts = [(1, 1), (2, 4), (2, 3), (3, 2), (1, 3)]
    else:
        shapes = [(a, b) for a in (1, 2, 3, 5, 8, 12, 17) for b in (1, 4, 7, 10, 13)] + [(40, 40), (23, 31)]
        counts = [(a, b) for a in (1, 2, 3, 4, 5, 6) for b in (1, 2, 3, 4, 5, 6)]
    out = []
    for s in shapes:
        for c in counts:
            if all((c[m] - 1) * (-(-s[m] // c[m])) < s[m] for m in range(2)):
                for payload in ("scalar", "color"):
                    if tier == "quick" and payload == "color" and s != (5, 7):
                        continue
                    out.append(dict(shape=s, counts=c, payload=payload))
    return out


@ob("C19.assemble", cases=_asm_cases, mods=MODS, funcs=FUNCS, samples=(1, 1),
    cite="re-assembly reproduces the image exactly; each patch is the sub-image found at its advertised voxel corners",
    note="token arrays per enumerated shape / patch count; overlaps 0, 1/4, 1/2 inside each instance")
def c19_assemble(ctx, shape, counts, payload):
    full = list(shape) + ([3] if payload == "color" else [])
    arr = ctx.array("a", full)
    # concrete physical size (voxel size 1/2: float evaluation of the patch size is exact), symbolic origin
    d = [shape[0] / 2.0, shape[1] / 2.0]
    o = ctx.reals("o", 2, sample=(-10.0, 10.0))

    def same(x, y):
        return x.shape == y.shape and (all(p is q for p, q in zip(x.flat, y.flat)) if ctx.sym else bool(np.all(x == y)))

    for rel in OVERLAPS:
        img = darsia.Image(arr, space_dim=2, scalar=payload == "scalar", dimensions=list(d), origin=list(o))
        P = darsia.Patches(img, num_patches=list(counts), rel_overlap=rel)
        asm = P.assemble()
        ctx.ensure(f"overlap {rel}: assemble() is the base image", same(asm.img, arr))
        ctx.ensure(f"overlap {rel}: assembled image carries the base metadata", and_(eq(list(asm.origin), list(o)), eq(list(asm.dimensions), list(d))))
        ctx.ensure(f"overlap {rel}: the assembled image is a new array (no memory shared with the base image or a patch)",
                   asm.img is not arr and not np.shares_memory(asm.img, arr) and not any(np.shares_memory(asm.img, P(i, j).img) for i in range(counts[0]) for j in range(counts[1])))
        for i in range(counts[0]):
            for j in range(counts[1]):
                gc = P.global_corners_voxels[i][j]
                interior = P(i, j).img[P.relative_rois_without_overlap[i][j]]
                ctx.ensure(f"overlap {rel}: interior of patch ({i},{j}) is the block between its advertised voxel corners",
                           same(interior, arr[int(gc[0][0]):int(gc[2][0]), int(gc[0][1]):int(gc[2][1])]))
                roi = P.rois[i][j]
                ctx.ensure(f"overlap {rel}: patch ({i},{j}) is base.subregion(roi)", same(P(i, j).img, arr[roi]))
        ctx.ensure(f"overlap {rel}: base image untouched", img.img is arr)


def _corner_cases(tier):
    shapes = [(4, 6), (5, 7), (6, 9)] if tier == "quick" else [(4, 6), (5, 7), (6, 9), (8, 8), (10, 4), (7, 12), (12, 12)]
    counts = [(1, 1), (2, 3), (2, 2)] if tier == "quick" else [(1, 1), (2, 3), (2, 2), (4, 2), (3, 3), (1, 4)]
    return [dict(shape=s, counts=c) for s in shapes for c in counts if all((c[m] - 1) * (-(-s[m] // c[m])) < s[m] for m in range(2))]


@ob("C19.corners", cases=_corner_cases, mods=MODS, funcs=FUNCS, samples=(1, 2),
    cite="the advertised patch centres and corners in voxel and physical units agree with each other under the base image's coordinate system",
    note="concrete shapes and patch counts; symbolic physical dimensions, origin; overlaps 0, 1/4, 1/2")
def c19_corners(ctx, shape, counts):
    d = ctx.reals("d", 2, pos=True, sample=(0.5, 20.0))
    o = ctx.reals("o", 2, sample=(-10.0, 10.0))
    divisible = all(shape[m] % counts[m] == 0 for m in range(2))
    ctx.witness("extent_not_divisible_by_patch_count", not divisible)
    for rel in OVERLAPS:
        img = darsia.Image(ctx.shape_array(shape), space_dim=2, scalar=True, dimensions=list(d), origin=list(o))
        P = darsia.Patches(img, num_patches=list(counts), rel_overlap=rel)
        cs = img.coordinatesystem
        for i in range(counts[0]):
            for j in range(counts[1]):
                gc = P.global_corners_voxels[i][j]
                gcc = P.global_corners_cartesian[i][j]
                for k in range(4):
                    ctx.ensure(f"overlap {rel}, patch ({i},{j}) corner {k}: physical corner is the coordinate of the voxel corner",
                               eq(list(gcc[k]), list(cs.coordinate([gc[k][0], gc[k][1]]))))
                cv = P.global_centers_voxels[i][j]
                cc = P.global_centers_cartesian[i][j]
                ctx.ensure(f"overlap {rel}, patch ({i},{j}): voxel centre is the voxel containing the physical centre",
                           eq(list(cv), list(cs.voxel(np.array(list(cc))))))
                if divisible:
                    mid = cs.coordinate(np.array([(gc[0][0] + gc[2][0]) / 2, (gc[0][1] + gc[2][1]) / 2]))
                    ctx.ensure(f"overlap {rel}, patch ({i},{j}): physical centre is the midpoint of the voxel corners", eq(list(cc), list(mid)))


@ob("C19.float_ceil", kind="B", cases=[dict(n=15, c=5, d=1.1), dict(n=21, c=7, d=0.9), dict(n=39, c=13, d=1.0), dict(n=35, c=5, d=1.0), dict(n=12, c=4, d=1.0), dict(n=30, c=10, d=1.1)],
    funcs=FUNCS, samples=(1, 1), tol=0.0,
    cite="the patches' interiors tile the image ...; the advertised patch ... corners in voxel and physical units agree with each other under the base image's coordinate system",
    note="bounded, listed inputs: extents DIVISIBLE by the patch count for which the float evaluation of ceil((d / c) / (d / n)) overshot n / c by one before the fix dada116 "
         "(the patch size is now the integer ceil of the voxel counts); kept as a regression check - the companions of the proofs no longer skip such samples either")
def c19_float_ceil(ctx, n, c, d):
    img = darsia.ScalarImage(np.arange(n * 2, dtype=float).reshape(n, 2), dimensions=[d, 1.0])
    P = darsia.Patches(img, [c, 1])
    rows = [int(P.patches[i][0].img.shape[0]) for i in range(c)]
    ctx.ensure(f"{n} voxels in {c} patches: every patch has n / c = {n // c} rows (got {rows})", rows == [n // c] * c)
    ctx.ensure("re-assembly reproduces the image", bool(np.array_equal(P.assemble().img, img.img)))
    vox = [int(np.asarray(P.global_corners_voxels[i][0])[0][0]) for i in range(c)]
    # row of the advertised physical corner, to the NEAREST voxel boundary (the corner coordinates themselves carry round-off)
    phys = [int(round(float((img.origin[1] - np.asarray(P.global_corners_cartesian[i][0])[0][1]) / img.voxel_size[0]))) for i in range(c)]
    ctx.ensure(f"advertised voxel corners {vox} == voxels of the advertised physical corners {phys}", vox == phys)
