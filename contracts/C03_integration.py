"""C03 — geometric integration is the weighted voxel sum at any resolution and history (darsia.Geometry & co)."""
import itertools

import numpy as np

import darsia
from vf import stubs
from vf.core import and_, eq, implies, not_, ob, product_cases

MODS = ["darsia.measure.integration", "darsia.image.arithmetics"]
FUNCS = ["darsia.measure.integration:Geometry.__init__", "darsia.measure.integration:Geometry.integrate",
         "darsia.measure.integration:Geometry.normalize", "darsia.measure.integration:WeightedGeometry.__init__",
         "darsia.measure.integration:ExtrudedGeometry.__init__", "darsia.measure.integration:PorousGeometry.__init__",
         "darsia.measure.integration:ExtrudedPorousGeometry.__init__", "darsia.image.arithmetics:weight"]
STUBS = {"cv2.resize": stubs.cv2_resize_area_stub}

SHAPES = {1: (3,), 2: (2, 3), 3: (2, 1, 2)}
GEOMS = ["plain", "weighted-scalar", "weighted-array", "extruded-scalar", "extruded-array", "porous-scalar", "porous-array",
         "extporous-ss", "extporous-aa", "extporous-as", "extporous-ii", "extporous-ia"]
PAYLOADS = ["scalar", "vector", "series", "vector-series"]


def make_geometry(ctx, kind, shape, tag="", scale=1.0):
    """Returns (geometry, effective weight array or scalar, voxel volume).  `scale` only moves the range of the concrete
    companion samples (e.g. millimetre-sized geometries); the symbolic obligation is over all positive sizes anyway."""
    dim = len(shape)
    d = ctx.reals(f"d{tag}", dim, pos=True, sample=(0.2 * scale, 9.0 * scale))
    vol = 1
    for k in range(dim):
        vol = vol * (d[k] / shape[k])
    kw = dict(space_dim=dim, num_voxels=tuple(shape), dimensions=list(d))
    sc = lambda n: ctx.real(n + tag, pos=True, sample=(0.1 * scale, 3.0 * scale))
    ar = lambda n: ctx.array(n + tag, shape, pos=True, sample=(0.1 * scale, 3.0 * scale))
    im = lambda n: darsia.Image(ar(n), space_dim=dim, scalar=True, dimensions=list(d))
    if kind == "plain":
        return darsia.Geometry(**kw), 1, vol
    a, b = kind.split("-")
    if a in ("weighted", "extruded", "porous"):
        w = sc("w") if b == "scalar" else ar("w")
        cls = {"weighted": darsia.WeightedGeometry, "extruded": darsia.ExtrudedGeometry, "porous": darsia.PorousGeometry}[a]
        return cls(w, **kw), w, vol
    por = {"s": sc, "a": ar, "i": im}[b[0]]("por")
    dep = {"s": sc, "a": ar, "i": im}[b[1]]("dep")
    g = darsia.ExtrudedPorousGeometry(por, dep, **kw)
    pv = por.img if isinstance(por, darsia.Image) else por
    dv = dep.img if isinstance(dep, darsia.Image) else dep
    return g, pv * dv, vol


def make_data(ctx, shape, payload, name="x", as_image=False):
    full = list(shape)
    if payload in ("series", "vector-series"):
        full.append(2)
    if payload in ("vector", "vector-series"):
        full.append(3)
    arr = ctx.array(name, full)
    if as_image:
        dim = len(shape)
        kw = dict(space_dim=dim, scalar=payload in ("scalar", "series"), series=payload in ("series", "vector-series"))
        if kw["series"]:
            kw["time"] = [0.0, 1.0]
        return darsia.Image(arr, **kw), arr
    return arr, arr


def spec_integral(arr, w, vol, dim):
    """sum over voxels of data * voxel volume * weight, separately for every trailing (time, component) index."""
    sp = arr.shape[:dim]
    out = np.empty(arr.shape[dim:], dtype=object)
    for t in np.ndindex(*arr.shape[dim:]):
        s = 0
        for v in np.ndindex(*sp):
            wv = w[v] if isinstance(w, np.ndarray) else w
            s = s + arr[v + t] * vol * wv
        out[t] = s
    return out if out.shape != () else out[()]


def _sum_cases(tier):
    out = []
    for dim in (1, 2, 3):
        for geom in GEOMS:
            for payload in PAYLOADS:
                for form in ("array", "image"):
                    if tier == "quick" and not (dim == 2 or (payload in ("scalar", "vector-series") and form == "array" and geom in ("plain", "weighted-array", "extporous-ia"))):
                        continue
                    out.append(dict(dim=dim, geom=geom, payload=payload, form=form))
    return out


@ob("C03.sum", cases=_sum_cases, mods=MODS, funcs=FUNCS, stubs=STUBS, samples=(1, 3),
    cite="Integrating data over a geometry returns the sum of data times effective voxel volume (voxel volume times depth and/or "
         "porosity weight) separately for every time step and component, is linear in the data")
def c03_sum(ctx, dim, geom, payload, form):
    shape = SHAPES[dim]
    g, w, vol = make_geometry(ctx, geom, shape)
    data, arr = make_data(ctx, shape, payload, "x", form == "image")
    got = g.integrate(data)
    want = spec_integral(arr, w, vol, dim)
    ctx.ensure("integral has one entry per (time step, component)", np.shape(got) == np.shape(want))
    ctx.ensure("integrate(data)[t,c] == sum_v data[v,t,c] * voxel_volume * weight[v]", eq(got, want))
    # linearity
    other, arr2 = make_data(ctx, shape, payload, "y", False)
    a = ctx.real("a", sample=(-3.0, 3.0))
    lin = g.integrate(a * arr + arr2)
    ctx.ensure("linear in the data", eq(lin, a * want + spec_integral(arr2, w, vol, dim)))
    ctx.ensure("data untouched", (data.img if form == "image" else data) is arr)


def _refine(arr, factors):
    out = arr
    for ax, k in enumerate(factors):
        out = np.repeat(out, k, axis=ax)
    return out


def _res_cases(tier):
    out = []
    geoms = ["plain", "weighted-scalar", "weighted-array", "extporous-ia"]
    for geom in geoms:
        for payload in ("scalar", "vector-series"):
            for mode, native, factors in (("coarser", (4, 2), (2, 2)), ("coarser", (2, 6), (1, 3)), ("finer", (2, 1), (2, 3)), ("finer", (1, 2), (3, 1)),
                                          # larger integer factors on axes long enough to have interior voxels (voxel-corner, not voxel-centre, parent convention)
                                          ("finer", (4, 3), (3, 4)), ("finer", (3, 5), (5, 3)),
                                          ("mixed", (2, 2), (2, 1)), ("mixed", (4, 2), (2, 1)), ("mixed-t", (2, 4), (1, 2)),
                                          # coarser by 3 along one axis while finer along the other: OpenCV's INTER_AREA is NOT an area interpolation when an axis is
                                          # enlarged (fixed defect, see known_findings.txt: integrate() now coarsens first, then refines)
                                          ("mixed", (6, 2), (3, 1)), ("mixed-t", (2, 6), (1, 3))):
                if payload == "vector-series" and "array" in geom or (payload == "vector-series" and geom == "extporous-ia"):
                    pass
                out.append(dict(geom=geom, payload=payload, mode=mode, native=native, factors=factors))
    if tier == "quick":
        out = [c for i, c in enumerate(out) if i % 2 == 0 or c["geom"] == "weighted-array"]
    # 1-D and 3-D: scalar volumes only (the code supports resizing of array volumes in 2-D only)
    for geom in ("plain", "weighted-scalar"):
        out.append(dict(geom=geom, payload="scalar", mode="coarser", native=(4,), factors=(2,)))
        out.append(dict(geom=geom, payload="vector-series", mode="finer", native=(1, 2, 1), factors=(2, 1, 2)))
    return out


@ob("C03.resolution", cases=_res_cases, mods=MODS, funcs=FUNCS, stubs=STUBS, samples=(1, 3), tol=1e-6,
    cite="gives the same value when the same piecewise-constant field is supplied at a coarser or finer resolution than the geometry's own",
    note="integer refinement / coarsening factors per axis; array-valued volumes go through the assumed cv2.resize(INTER_AREA) contract")
def c03_resolution(ctx, geom, payload, mode, native, factors):
    dim = len(native)
    g, w, vol = make_geometry(ctx, geom, native)
    if mode == "coarser":
        cshape = tuple(n // k for n, k in zip(native, factors))
        coarse, carr = make_data(ctx, cshape, payload, "c")
        fine_field = _refine(carr, factors)                       # the same piecewise-constant field at native resolution
        got = g.integrate(coarse)
        want = spec_integral(fine_field, w, vol, dim)
        ctx.ensure("integrate(coarse field) == integral of the same piecewise-constant field at native resolution", eq(got, want))
    elif mode == "finer":
        nat, narr = make_data(ctx, native, payload, "c")
        fine = _refine(narr, factors)
        got = g.integrate(fine)
        ctx.ensure("integrate(field refined by integer factors) == integrate(field)", eq(got, spec_integral(narr, w, vol, dim)))
    elif mode == "mixed":
        # coarser along axis 0, finer along axis 1 (by 2, and by 4: then the data has strictly MORE voxels than the geometry although one axis is coarser)
        base_shape = (native[0] // factors[0], native[1])
        base, barr = make_data(ctx, base_shape, payload, "c")
        field_native = np.repeat(barr, factors[0], axis=0)         # the field at native resolution
        for up in (2, 4):
            supplied = np.repeat(barr, up, axis=1)                 # finer along axis 1
            got = g.integrate(supplied)
            ctx.ensure(f"integrate(field coarser along axis 0 and {up}x finer along axis 1) == native integral", eq(got, spec_integral(field_native, w, vol, dim)))
    else:
        # transposed: coarser along axis 1, finer along axis 0
        base_shape = (native[0], native[1] // factors[1])
        base, barr = make_data(ctx, base_shape, payload, "c")
        field_native = np.repeat(barr, factors[1], axis=1)
        for up in (2, 4):
            supplied = np.repeat(barr, up, axis=0)
            got = g.integrate(supplied)
            ctx.ensure(f"integrate(field coarser along axis 1 and {up}x finer along axis 0) == native integral", eq(got, spec_integral(field_native, w, vol, dim)))


# native resolution (6, 4): 'coarser' = (3, 2), 'other-coarser' = (2, 2) — the two coarse shapes do not divide each other (3 -> 2), so a
# voxel volume rebuilt from another coarse cache instead of from the native one is exposed
ALPHABET = {"native": (1, 1), "coarser": (2, 2), "finer": None, "other-coarser": (3, 2)}


def _hist_cases(tier):
    letters = ["native", "coarser", "finer", "other-coarser"]
    seqs = [s for n in (1, 2) for s in itertools.product(letters, repeat=n)]
    if tier == "thorough":
        seqs += list(itertools.product(letters, repeat=3))
    out = []
    for geom in ("plain", "weighted-scalar", "weighted-array"):
        for s in seqs:
            if tier == "quick" and geom != "plain" and len(s) == 2 and s[0] == s[1]:
                continue
            out.append(dict(geom=geom, history="/".join(s)))
    return out


def _at(ctx, native, letter, payload, name):
    if letter == "finer":
        shape = (native[0] * 2, native[1] * 2)
    else:
        k = ALPHABET[letter]
        shape = (native[0] // k[0], native[1] // k[1])
    return make_data(ctx, shape, payload, name)[0]


@ob("C03.history", cases=_hist_cases, mods=MODS, funcs=FUNCS, stubs=STUBS, samples=(1, 2), tol=1e-6,
    cite="The value returned for given data does not depend on what was integrated earlier with the same geometry object",
    note="relational: object that served an arbitrary earlier call sequence vs fresh object, for each final resolution")
def c03_history(ctx, geom, history):
    native = (6, 4)
    for letter in ("native", "coarser", "finer", "other-coarser"):
        # a new object per final call, taken through the same history (an earlier final call must not repair the state)
        used, w, vol = make_geometry(ctx, geom, native)
        for i, h in enumerate(history.split("/")):
            used.integrate(_at(ctx, native, h, "scalar", f"h{i}"))
        x = _at(ctx, native, letter, "scalar", "x" + letter[:2])
        fresh, w2, vol2 = make_geometry(ctx, geom, native)        # same symbols => the same geometry, fresh object
        ctx.ensure(f"after history [{history}]: integrate({letter} data) equals a fresh object's result", eq(used.integrate(x), fresh.integrate(x)))


@ob("C03.normalize", cases=product_cases(geom=("plain", "weighted-array", "extporous-ia"), payload=("scalar", "vector"), scale=(1.0, 1e-6)),
    mods=MODS, funcs=FUNCS, stubs=STUBS, samples=(2, 4), tol=(1e-8, 1e-40),
    cite="normalising an image against a reference makes their integrals equal")
def c03_normalize(ctx, geom, payload, scale):
    shape = (2, 2)
    g, w, vol = make_geometry(ctx, geom, shape, scale=scale)
    img, arr = make_data(ctx, shape, payload, "x", True)
    ref, rarr = make_data(ctx, shape, payload, "r", True)
    i_img = spec_integral(arr, w, vol, 2)
    for e in (list(np.asarray(i_img).flat) if np.ndim(i_img) else [i_img]):
        ctx.assume(not_(eq(e, 0)))
    out = g.normalize(img, ref)
    i_ref = spec_integral(rarr, w, vol, 2)
    out2, ratio = g.normalize(img, ref, return_ratio=True)
    ctx.ensure("returned ratio == integral(ref) / integral(img)  (per component)", eq(ratio, i_ref / i_img))
    # modular step 1 (contract of normalize over the contract of weight): every voxel is scaled by the ratio of its component
    r = i_ref / i_img
    want = arr * r if payload == "scalar" else arr * np.asarray(r)[None, None, :]
    ctx.ensure("normalize(img, ref).img == img.img * ratio  (per component)", and_(eq(out.img, want), eq(out2.img, want)))
    ctx.ensure("img and ref untouched, result is a new image", img.img is arr and ref.img is rarr and out is not img)
    ctx.ensure("result keeps the image's metadata", and_(eq(list(out.origin), list(img.origin)), eq(list(out.dimensions), list(img.dimensions)), out.scalar == img.scalar))
    if geom == "plain" and payload == "scalar" and scale == 1.0:
        # direct statement (small enough for the solver); in general it follows from step 1 + linearity (C03.sum) + lemma C03.ratio
        ctx.ensure("integrate(normalize(img, ref)) == integrate(ref)", eq(g.integrate(out), i_ref))


@ob("C03.ratio", kind="L", samples=(0, 0), cite="normalising an image against a reference makes their integrals equal",
    note="lemma over contracts: linearity of integrate (C03.sum) and the voxelwise scaling of normalize (C03.normalize)")
def c03_ratio(ctx):
    import z3
    I = z3.Function("I", z3.RealSort(), z3.RealSort())          # abstract: integral of the image scaled by a factor, I(s) = integrate(s * img)
    a, b, s = z3.Real("I_ref"), z3.Real("I_img"), z3.Real("s")
    ctx.assume(z3.ForAll([s], I(s) == s * b))                     # linearity contract: integrate(s * img) = s * integrate(img)
    ctx.assume(b != 0)
    ctx.ensure("integrate((I_ref / I_img) * img) == I_ref", I(a / b) == a)


@ob("C03.history_rejected", cases=[dict(dim=d, geom=g, foreign=f) for d in (1, 3) for g in ("weighted-array", "extruded-array", "porous-array", "extporous-aa", "extporous-ia", "plain")
                                   for f in ("coarser", "finer")],
    mods=MODS, funcs=FUNCS, stubs=STUBS, samples=(2, 3), tol=1e-6,
    cite="The value returned for given data does not depend on what was integrated earlier with the same geometry object",
    note="history with a REJECTED call: data at a foreign resolution is refused for array-valued volumes outside 2-D (ValueError); whether the earlier call was refused or served, "
         "a later call at native resolution equals a fresh object's result (after seed C03_e: cache written before the refusal)")
def c03_history_rejected(ctx, dim, geom, foreign):
    native = {1: (4,), 3: (2, 2, 2)}[dim]
    used, w, vol = make_geometry(ctx, geom, native)
    fshape = tuple(n // 2 for n in native) if foreign == "coarser" else tuple(n * 2 for n in native)
    y = make_data(ctx, fshape, "scalar", "y")[0]
    refused = False
    try:
        used.integrate(y)
    except Exception:      # noqa: BLE001 - any refusal
        refused = True
    x, xarr = make_data(ctx, native, "scalar", "x")
    fresh, w2, vol2 = make_geometry(ctx, geom, native)
    got = used.integrate(x)
    ctx.ensure(f"after a {'refused' if refused else 'served'} call at {foreign} resolution: integrate(native data) equals a fresh object's result", eq(got, fresh.integrate(x)))
    ctx.ensure("... and is the specified weighted sum", eq(got, spec_integral(xarr, w, vol, dim)))


@ob("C03.dep_resize", kind="B", samples=(2, 6), funcs=[], tol=2e-7, cite="(validation of an assumed dependency contract)",
    note="the cv2.resize(INTER_AREA) stub used by C03.sum / resolution / history against the installed OpenCV: random integer ratios per axis, 1-3 channels")
def c03_dep_resize(ctx):
    from contracts import deps_validation as dv
    dv.dep_resize(ctx)
