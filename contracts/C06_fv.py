"""C06 — finite-volume operators obey the discrete divergence theorem (fv.py on darsia.Grid)."""
import itertools

import numpy as np

import darsia
from vf import frame, stubs
from vf.core import and_, eq, ob, or_, same

MODS = ["darsia.utils.fv"]           # grid.py runs natively: it only handles concrete integer index arrays
FUNCS = ["darsia.utils.fv:FVDivergence.__init__", "darsia.utils.fv:FVMass.__init__", "darsia.utils.fv:face_to_cell",
         "darsia.utils.fv:cell_to_face_average", "darsia.utils.fv:FVTangentialFaceReconstruction.__init__",
         "darsia.utils.fv:FVTangentialFaceReconstruction.__call__", "darsia.utils.fv:FVFullFaceReconstruction.__call__",
         "darsia.utils.grid:Grid.__init__"]
STUBS = {"sps.csc_matrix": stubs.csc_matrix_stub, "sps.diags": stubs.diags_stub, "hmean": stubs.hmean_stub}
FRAME_MODS = ["darsia.utils.fv", "darsia.utils.grid"]


def shapes(tier):
    if tier == "quick":
        return [(1,), (2,), (5,), (1, 1), (1, 3), (3, 1), (2, 2), (3, 4), (1, 1, 1), (2, 1, 2), (1, 3, 1), (2, 2, 2), (2, 3, 2)]
    out = [(n,) for n in range(1, 13)]
    out += list(itertools.product(range(1, 8), repeat=2))
    out += list(itertools.product(range(1, 6), repeat=3))
    return out


def cases(tier):
    return [dict(shape=s) for s in shapes(tier)]


def mk_grid(ctx, shape, tag="h"):
    h = ctx.reals(tag, len(shape), pos=True, sample=(0.05, 9.0))
    return darsia.Grid(tuple(shape), list(h)), h


def dense(m):
    return np.asarray(m.toarray())


def cell_id(shape, v):
    return int(np.ravel_multi_index(tuple(v), shape, order="F"))


def face_lookup(grid):
    """(lower cell id, upper cell id) -> face number, from the grid's connectivity."""
    return {(int(a), int(b)): f for f, (a, b) in enumerate(np.asarray(grid.connectivity))}


def area(h, d):
    r = 1
    for k in range(len(h)):
        if k != d:
            r = r * h[k]
    return r


def axis_of_face(grid, f):
    for d in range(grid.dim):
        if f in set(int(x) for x in grid.faces[d]):
            return d
    raise AssertionError


@ob("C06.div", cases=cases, mods=MODS, funcs=FUNCS, stubs=STUBS, samples=(1, 2),
    cite="the divergence of a face flux equals each cell's net outflow (flux times face area, oriented from the lower- to the "
         "higher-index neighbour), so total divergence vanishes and divergence is the negative adjoint of the face difference; "
         "mass matrices scale by voxel volume")
def c06_div(ctx, shape):
    before = frame.snapshot(FRAME_MODS)
    # an earlier operator on a grid of the same shape but other voxel sizes must not influence this one (history)
    g0, h0 = mk_grid(ctx, shape, "k")
    darsia.FVDivergence(g0)
    darsia.FVMass(g0)
    grid, h = mk_grid(ctx, shape)
    D = dense(darsia.FVDivergence(grid).mat)
    nc, nf = int(np.prod(shape)), int(grid.num_faces)
    ctx.ensure("divergence matrix is cells x faces", D.shape == (nc, nf))
    want = np.empty((nc, nf), dtype=object)
    want[...] = 0
    for f in range(nf):
        d = axis_of_face(grid, f)
        c0, c1 = (int(x) for x in grid.connectivity[f])
        want[c0, f] = area(h, d)
        want[c1, f] = -area(h, d)
    ctx.ensure("div[c,f] = +area if c is the lower-index neighbour of f, -area if the higher-index one, else 0", eq(D, want) if nf else True)
    u = ctx.array("u", (nf,))
    p = ctx.array("p", (nc,))
    if nf:
        div_u = D.dot(u)
        ctx.ensure("total divergence vanishes", eq(np.sum(div_u), 0))
        diff = np.array([area(h, axis_of_face(grid, f)) * (p[int(grid.connectivity[f][1])] - p[int(grid.connectivity[f][0])]) for f in range(nf)])
        ctx.ensure("divergence is the negative adjoint of the (area-weighted) face difference", eq(D.T.dot(p), -diff))
    vol = 1
    for x in h:
        vol = vol * x
    M = dense(darsia.FVMass(grid).mat)
    ctx.ensure("cell mass matrix = voxel volume * identity", eq(M, np.array([[vol if i == j else 0 for j in range(nc)] for i in range(nc)], dtype=object)))
    if nf:
        Mf = dense(darsia.FVMass(grid, "faces").mat)
        ctx.ensure("face mass matrix = voxel volume * identity", eq(Mf, np.array([[vol if i == j else 0 for j in range(nf)] for i in range(nf)], dtype=object)))
    ctx.ensure("no module- or class-level state written (frame)", frame.diff(before, frame.snapshot(FRAME_MODS)) == [])


@ob("C06.f2c", cases=cases, mods=MODS, funcs=FUNCS, stubs=STUBS, samples=(1, 2),
    cite="Cell fluxes reconstructed from face fluxes interpolate linearly between the two opposite faces of each cell (face value "
         "at the face, mean at the centre, zero on the outer boundary)")
def c06_f2c(ctx, shape):
    grid, h = mk_grid(ctx, shape)
    dim = len(shape)
    nf = int(grid.num_faces)
    u = ctx.array("u", (nf,))
    pt = ctx.reals("pt", dim, lo=0, hi=1)
    lut = face_lookup(grid)
    got = darsia.face_to_cell(grid, u, np.array(pt) if dim > 1 else pt[0])
    ctr = darsia.face_to_cell(grid, u)
    ctx.ensure("cell flux array has shape (*grid.shape, dim)", got.shape == (*shape, dim) and ctr.shape == (*shape, dim))
    ok_pt, ok_ctr = [], []
    for v in np.ndindex(*shape):
        for d in range(dim):
            e = np.zeros(dim, dtype=int)
            e[d] = 1
            up = tuple(np.array(v) + e)
            dn = tuple(np.array(v) - e)
            f_up = u[lut[(cell_id(shape, v), cell_id(shape, up))]] if up[d] < shape[d] else 0
            f_dn = u[lut[(cell_id(shape, dn), cell_id(shape, v))]] if dn[d] >= 0 else 0
            ok_pt.append(eq(got[v + (d,)], pt[d] * f_up + (1 - pt[d]) * f_dn))
            ok_ctr.append(eq(ctr[v + (d,)], (f_up + f_dn) / 2))
    ctx.ensure("RT0: flux_d(cell, pt) = pt_d * (face towards higher index) + (1-pt_d) * (face towards lower index), 0 on the outer boundary", and_(*ok_pt))
    ctx.ensure("default evaluation point is the cell centre: mean of the two opposite faces", and_(*ok_ctr))


@ob("C06.c2f", cases=cases, mods=MODS, funcs=FUNCS, stubs=STUBS, samples=(1, 2),
    cite="cell-to-face averages are the arithmetic or harmonic mean of the two neighbours")
def c06_c2f(ctx, shape):
    grid, h = mk_grid(ctx, shape)
    dim = len(shape)
    nf = int(grid.num_faces)
    forms = {"scalar": tuple(shape), "scalar1": (*shape, 1), "vector": (*shape, dim), "tensor": (*shape, dim, dim)}
    if dim == 1:
        forms.pop("vector")      # (n, 1) is the documented single-component form
    for name, shp in forms.items():
        q = ctx.array("q" + name, shp, pos=True, sample=(0.1, 5.0))
        for layout in ("C", "F"):
            qq = np.asfortranarray(q.copy()) if layout == "F" else q.copy()
            snap = qq.copy()
            first = {}
            for mode in ("harmonic", "arithmetic", "harmonic"):
                r = darsia.cell_to_face_average(grid, qq, mode)
                if mode in first:
                    ctx.ensure(f"{name}/{layout}: repeated {mode} averaging of the same field gives the same result", eq(r, first[mode]) if nf else True)
                first.setdefault(mode, r)
            ctx.ensure(f"{name}/{layout}: the cell field passed in is not written", same(qq, snap))
        for mode in ("arithmetic", "harmonic"):
            got = darsia.cell_to_face_average(grid, q, mode)
            ctx.ensure(f"{name}/{mode}: one value per face", np.shape(got) == (nf,))
            oks = []
            for f in range(nf):
                d = axis_of_face(grid, f)
                vals = []
                for c in grid.connectivity[f]:
                    v = np.unravel_index(int(c), shape, order="F")
                    if name == "scalar":
                        vals.append(q[v])
                    elif name == "scalar1":
                        vals.append(q[v + (0,)])
                    elif name == "vector":
                        vals.append(q[v + (d,)])
                    else:
                        vals.append(q[v + (d, d)])
                want = (vals[0] + vals[1]) / 2 if mode == "arithmetic" else 2 / (1 / vals[0] + 1 / vals[1])
                oks.append(eq(got[f], want))
            ctx.ensure(f"{name}/{mode}: face value is the {mode} mean of its two neighbours (normal component)", and_(*oks) if oks else True)


@ob("C06.tangential", cases=cases, mods=MODS, funcs=FUNCS, stubs=STUBS, samples=(1, 2),
    cite="tangential reconstruction reproduces constant fields on interior faces")
def c06_tangential(ctx, shape):
    grid, h = mk_grid(ctx, shape)
    dim = len(shape)
    nf = int(grid.num_faces)
    before = frame.snapshot(FRAME_MODS)
    T = darsia.FVTangentialFaceReconstruction(grid)
    ctx.ensure("one reconstruction matrix per tangential direction", len(T.mat) == dim - 1)
    lut = face_lookup(grid)
    mats = [dense(m) for m in T.mat]
    a = ctx.reals("a", dim)                      # constant field (a_0, .., a_{dim-1})
    const_flux = np.empty((nf,), dtype=object if ctx.sym else float)
    for f in range(nf):
        const_flux[f] = a[axis_of_face(grid, f)]
    interior = [set(int(x) for x in grid.interior_faces[d]) for d in range(dim)]
    for i in range(dim - 1):
        want = np.empty((nf, nf), dtype=object)
        want[...] = 0
        ok_const = []
        for f in range(nf):
            d = axis_of_face(grid, f)
            d_perp = [k for k in range(dim) if k != d][i]
            e = np.zeros(dim, dtype=int)
            e[d_perp] = 1
            nb = []
            for c in grid.connectivity[f]:
                v = np.array(np.unravel_index(int(c), shape, order="F"))
                for w0, w1 in ((v - e, v), (v, v + e)):
                    if w0[d_perp] >= 0 and w1[d_perp] < shape[d_perp]:
                        nb.append(lut[(cell_id(shape, w0), cell_id(shape, w1))])
            for g in nb:
                want[f, g] = want[f, g] + 0.25
            if nf and len(nb) == 4:
                ok_const.append(eq(mats[i][f].dot(const_flux), a[d_perp]))
            if f in interior[d]:
                ok_const.append(len(nb) == 4)
        if nf:
            ctx.ensure(f"direction {i}: entry (f,g) = 1/4 for each orthogonal face g adjacent to a neighbour cell of f", eq(mats[i], want))
            ctx.ensure(f"direction {i}: constants are reproduced on faces with all four orthogonal neighbours (incl. every interior face)", and_(*ok_const) if ok_const else True)
    if nf:
        u = ctx.array("u", (nf,))
        full = darsia.FVFullFaceReconstruction(grid)(u)
        tang = T(u, False)
        oks = []
        for f in range(nf):
            d = axis_of_face(grid, f)
            oks.append(eq(full[f, d], u[f]))
            for i, d_perp in enumerate([k for k in range(dim) if k != d]):
                oks.append(eq(full[f, d_perp], mats[i][f].dot(u)))
                oks.append(eq(tang[i][f], mats[i][f].dot(u)))
        ctx.ensure("full face flux = (normal flux, tangential reconstructions) per face", and_(*oks))
    ctx.ensure("no module- or class-level state written (frame)", frame.diff(before, frame.snapshot(FRAME_MODS)) == [])


@ob("C06.results_independent", cases=lambda tier: [dict(shape=s) for s in ([(4,), (2, 2), (3, 2), (2, 1, 2), (2, 2, 2)] if tier == "quick" else [s for s in shapes(tier) if np.prod(s) > 1][::3])],
    mods=MODS, funcs=FUNCS, stubs=STUBS, samples=(1, 2),
    cite="Cell fluxes reconstructed from face fluxes ..., cell-to-face averages ..., tangential reconstruction (each result is a value, not a view of operator-internal storage)",
    note="relational: the result of an earlier application of an operator object / function is not altered by a later application to other data, results do not share memory, "
         "arguments are not written (after seed C06_e: a reconstruction operator returning one internal buffer)")
def c06_results_independent(ctx, shape):
    grid, h = mk_grid(ctx, shape)
    dim = len(shape)
    nf, nc = int(grid.num_faces), int(grid.num_cells)
    u, v = ctx.array("u", (nf,)), ctx.array("v", (nf,))
    q, p = ctx.array("q", shape, pos=True, sample=(0.1, 5.0)), ctx.array("p", shape, pos=True, sample=(0.1, 5.0))
    full = darsia.FVFullFaceReconstruction(grid)
    tang = darsia.FVTangentialFaceReconstruction(grid)
    div = darsia.FVDivergence(grid)
    ops = {
        "FVFullFaceReconstruction.__call__": (lambda x: full(x), u, v),
        "FVTangentialFaceReconstruction.__call__ (concatenated)": (lambda x: tang(x), u, v),
        "FVTangentialFaceReconstruction.__call__ (list)": (lambda x: np.array(tang(x, False), dtype=object if ctx.sym else float), u, v),
        "face_to_cell": (lambda x: darsia.face_to_cell(grid, x), u, v),
        "FVDivergence.mat.dot": (lambda x: div.mat.dot(x), u, v),
        "cell_to_face_average(harmonic)": (lambda x: darsia.cell_to_face_average(grid, x, "harmonic"), q, p),
        "cell_to_face_average(arithmetic)": (lambda x: darsia.cell_to_face_average(grid, x, "arithmetic"), q, p),
    }
    if dim == 1:
        ops = {k: o for k, o in ops.items() if "Tangential" not in k}
    for name, (op, a, b) in ops.items():
        a0, b0 = a.copy(), b.copy()
        r1 = np.asarray(op(a))
        keep = r1.copy()
        r2 = np.asarray(op(b))
        ctx.ensure(f"{name}: an earlier result is not altered by a later application", same(r1, keep))
        ctx.ensure(f"{name}: two results do not share memory", r1.size == 0 or not np.shares_memory(r1, r2))
        ctx.ensure(f"{name}: arguments untouched", same(a, a0) and same(b, b0))
        ctx.ensure(f"{name}: applying again to the first argument reproduces the first result", eq(np.asarray(op(a)), keep) if r1.size else True)


@ob("C06.scalar_voxel_size", cases=[dict(shape=s) for s in [(3,), (2, 3), (1, 2), (2, 2, 2), (2, 1, 3)]], mods=MODS, funcs=FUNCS, stubs=STUBS, samples=(2, 4),
    cite="divergence ... flux times face area ...; mass matrices scale by voxel volume (a grid may be given ONE voxel size for all axes)",
    note="Grid(shape, voxel_size=h) with a scalar h (the documented second call form): mass diagonals are h^dim, face areas h^(dim-1) - the same operators as for the list "
         "[h, ..., h] (after seed C06_h: voxel volume taken from the raw scalar argument)")
def c06_scalar_voxel_size(ctx, shape):
    dim = len(shape)
    h = ctx.real("h", pos=True, sample=(0.1, 4.0))
    gs = darsia.Grid(tuple(shape), h)
    gl = darsia.Grid(tuple(shape), [h] * dim)
    nc, nf = int(np.prod(shape)), int(gs.num_faces)
    vol = h ** dim
    for mode, n in (("cells", nc), ("faces", nf)):
        Ms, Ml = dense(darsia.FVMass(gs, mode).mat), dense(darsia.FVMass(gl, mode).mat)
        ctx.ensure(f"mass matrix ({mode}) of the scalar-size grid == that of the list-size grid", eq(Ms, Ml))
        ctx.ensure(f"mass matrix ({mode}) = h^dim * identity", eq(Ms, np.array([[vol if i == j else 0 for j in range(n)] for i in range(n)], dtype=object)) if n else True)
    if nf:
        Ds, Dl = dense(darsia.FVDivergence(gs).mat), dense(darsia.FVDivergence(gl).mat)
        ctx.ensure("divergence of the scalar-size grid == that of the list-size grid", eq(Ds, Dl))
        ctx.ensure("every divergence entry is 0 or +-h^(dim-1)", and_(*[or_(eq(e, 0), eq(e, h ** (dim - 1)), eq(e, -(h ** (dim - 1)))) for e in Ds.flat]))
    ctx.ensure("voxel size per axis", eq(list(gs.voxel_size), [h] * dim))


@ob("C06.dep_scipy", kind="B", samples=(2, 6), funcs=[], tol=1e-12, cite="(validation of assumed dependency contracts)",
    note="the scipy.sparse coordinate-constructor / diags model and the scipy.stats.hmean stub against the installed scipy")
def c06_dep_scipy(ctx):
    from contracts import deps_validation as dv
    dv.dep_coo(ctx)
    dv.dep_hmean(ctx)
