"""C09 — coordinate transformations are invertible and move voxels exactly."""
import numpy as np

import darsia
from vf import stubs
from vf.core import and_, eq, ob, product_cases, same

MODS = ["darsia.corrections.shape.affine", "darsia.corrections.shape.transformation", "darsia.utils.point",
        "darsia.image.coordinatesystem", "darsia.image.indexing", "darsia.image.image", "darsia.image.coordinatetransformation"]
FUNCS = ["darsia.corrections.shape.affine:AffineTransformation.__init__", "darsia.corrections.shape.affine:AffineTransformation.set_parameters",
         "darsia.corrections.shape.affine:AffineTransformation.set_parameters_as_vector",
         "darsia.corrections.shape.affine:AffineTransformation.call_array", "darsia.corrections.shape.affine:AffineTransformation.inverse_array",
         "darsia.corrections.shape.transformation:BaseTransformation.__call__", "darsia.corrections.shape.transformation:BaseTransformation.inverse",
         "darsia.corrections.shape.transformation:BaseTransformation.set_dtype",
         "darsia.corrections.shape.transformation:TransformationCorrection.correct_array",
         "darsia.image.coordinatetransformation:CoordinateTransformation.correct_metadata"]
STUBS = {"Rotation": stubs.rotation_stub}


def make_affine(ctx, dim, angles="all"):
    T = darsia.AffineTransformation(dim)
    t = ctx.reals("t", dim, sample=(-5.0, 5.0))
    s = ctx.real("s", pos=True, sample=(0.1, 10.0))
    nrot = 1 if dim == 2 else 3
    if angles == "all":
        th = ctx.reals("th", nrot, sample=(-3.0, 3.0))
    elif angles == "none":
        th = [0.0] * nrot
    else:
        k = int(angles)
        th = [ctx.real("th", sample=(-3.0, 3.0)) if i == k else 0.0 for i in range(nrot)]
    T.set_parameters(np.array(t), s, np.array(th))
    return T, t, s, th


def rows(ctx, name, n, dim):
    return np.array([[ctx.real(f"{name}{r}_{m}", sample=(-6.0, 6.0)) for m in range(dim)] for r in range(n)])


@ob("C09.inverse", cases=[dict(dim=2, angles="all"), dict(dim=3, angles="0"), dict(dim=3, angles="1"), dict(dim=3, angles="2"), dict(dim=3, angles="all")],
    mods=MODS, funcs=FUNCS, stubs=STUBS, samples=(3, 10), budget={"paths": 16, "timeout_ms": 4000},
    note="z3 first (4 s per VC); polynomial identities modulo c^2+s^2=1 that z3 leaves open are decided by the Groebner fallback (vf/poly.py)",
    cite="an affine map followed by its inverse (in either order) returns the original points, its rotation part is orthonormal "
         "with determinant one")
def c09_inverse(ctx, dim, angles):
    T, t, s, th = make_affine(ctx, dim, angles)
    R, Ri = T.rotation, T.rotation_inv
    I = np.eye(dim)
    ctx.ensure("rotation is orthonormal", eq(R.T.dot(R), I))
    det = (R[0, 0] * R[1, 1] - R[0, 1] * R[1, 0]) if dim == 2 else (
        R[0, 0] * (R[1, 1] * R[2, 2] - R[1, 2] * R[2, 1]) - R[0, 1] * (R[1, 0] * R[2, 2] - R[1, 2] * R[2, 0]) + R[0, 2] * (R[1, 0] * R[2, 1] - R[1, 1] * R[2, 0]))
    ctx.ensure("rotation has determinant one", eq(det, 1))
    ctx.ensure("rotation_inv . rotation == identity", eq(Ri.dot(R), I))
    ctx.ensure("rotation . rotation_inv == identity", eq(R.dot(Ri), I))
    X = rows(ctx, "x", 2, dim)
    ctx.ensure("inverse(call(x)) == x", eq(T.inverse_array(T.call_array(X)), X))
    ctx.ensure("call(inverse(x)) == x", eq(T.call_array(T.inverse_array(X)), X))


@ob("C09.action", cases=[dict(dim=2), dict(dim=3)], mods=MODS, funcs=FUNCS, stubs=STUBS, samples=(3, 10),
    cite="scaling and translation act as documented")
def c09_action(ctx, dim):
    T, t, s, th = make_affine(ctx, dim, "none")
    X = rows(ctx, "x", 2, dim)
    ctx.ensure("without rotation: call(x) = scaling * x + translation", eq(T.call_array(X), s * X + np.array(t)[None, :]))
    ctx.ensure("without rotation: inverse(y) = (y - translation) / scaling", eq(T.inverse_array(X), (X - np.array(t)[None, :]) / s))
    T0 = darsia.AffineTransformation(dim)
    ctx.ensure("freshly constructed transformation is the identity", and_(eq(T0.call_array(X), X), eq(T0.inverse_array(X), X)))
    # parameter vector layout: translation, scaling, rotation
    T2 = darsia.AffineTransformation(dim)
    nrot = 1 if dim == 2 else 3
    T2.set_parameters_as_vector(np.array(list(t) + [s] + [0.0] * nrot))
    ctx.ensure("set_parameters_as_vector: (translation, scaling, rotation)", eq(T2.call_array(X), s * X + np.array(t)[None, :]))
    T3 = darsia.AffineTransformation(dim)
    T3.isometry = True
    T3.set_parameters_as_vector(np.array(list(t) + [0.0] * nrot))
    ctx.ensure("isometry parameter vector: (translation, rotation), unit scaling", eq(T3.call_array(X), X + np.array(t)[None, :]))


@ob("C09.rotation2d", cases=[dict()], mods=MODS, funcs=FUNCS, stubs=STUBS, samples=(3, 10),
    cite="rotation ... act as documented (2-D: counter-clockwise by the angle about the origin)")
def c09_rotation2d(ctx):
    T, t, s, th = make_affine(ctx, 2, "all")
    R = T.rotation
    ctx.ensure("2-D rotation matrix is [[c,-s],[s,c]]", and_(eq(R[0, 0], R[1, 1]), eq(R[0, 1], -R[1, 0]), eq(R[0, 0] * R[0, 0] + R[1, 0] * R[1, 0], 1)))
    if not ctx.sym:
        ctx.ensure("angle convention", and_(eq(R[0, 0], np.cos(th[0])), eq(R[1, 0], np.sin(th[0]))))


POINT_KINDS = {"coordinate": (darsia.make_coordinate, darsia.Coordinate, darsia.CoordinateArray),
               "voxel": (darsia.make_voxel, darsia.Voxel, darsia.VoxelArray),
               "voxelcenter": (darsia.make_voxel_center, darsia.VoxelCenter, darsia.VoxelCenterArray)}


@ob("C09.typed", cases=product_cases(dim=(2, 3), src=tuple(POINT_KINDS), dst=tuple(POINT_KINDS)), mods=MODS, funcs=FUNCS, stubs=STUBS, samples=(2, 5),
    cite="typed in/out conversion (BaseTransformation.__call__, inverse, set_dtype)")
def c09_typed(ctx, dim, src, dst):
    T, t, s, th = make_affine(ctx, dim, "none")
    mk_s, one_s, arr_s = POINT_KINDS[src]
    mk_d, one_d, arr_d = POINT_KINDS[dst]
    proto = np.zeros((2, dim))
    T.set_dtype(mk_s(proto), mk_d(proto))
    ctx.ensure("set_dtype records the point classes", T.input_dtype is one_s and T.output_dtype is one_d and T.input_array_dtype is arr_s and T.output_array_dtype is arr_d)
    X = rows(ctx, "x", 2, dim)
    out = T(X)
    ctx.ensure("call on an array of points returns the destination array class", isinstance(out, arr_d) and out.shape == X.shape)
    one = T(X[0])
    ctx.ensure("call on a single point returns the destination point class", isinstance(one, one_d) and not isinstance(one, arr_d) and one.shape == (dim,))
    back = T.inverse(X)
    ctx.ensure("inverse on an array returns the source array class", isinstance(back, arr_s) and back.shape == X.shape)
    b1 = T.inverse(X[0])
    ctx.ensure("inverse on a single point returns the source point class", isinstance(b1, one_s) and not isinstance(b1, arr_s) and b1.shape == (dim,))
    if dst == "coordinate":
        ctx.ensure("typed call == call_array", and_(eq(np.asarray(out), T.call_array(X)), eq(np.asarray(one), T.call_array(X[:1])[0])))
    if src == "coordinate":
        ctx.ensure("typed inverse == inverse_array", and_(eq(np.asarray(back), T.inverse_array(X)), eq(np.asarray(b1), T.inverse_array(X[:1])[0])))


def _warp_cases(tier):
    out = []
    shapes = [(3, 4)] if tier == "quick" else [(3, 4), (2, 2), (4, 3), (1, 5)]
    for shape in shapes:
        for units in ("coordinate", "voxel", "voxelcenter"):
            for payload in ("scalar", "vector"):
                out.append(dict(shape=shape, units=units, payload=payload, kind="shift"))
    for units in ("coordinate", "voxelcenter"):
        out.append(dict(shape=(3, 3), units=units, payload="scalar", kind="turn"))
    for units in ("coordinate", "voxel", "voxelcenter"):
        out.append(dict(shape=(3, 4), units=units, payload="scalar", kind="systems"))
    out.append(dict(shape=(3, 4), units="coordinate", payload="vector", kind="systems"))
    out.append(dict(shape=(2, 2, 3), units="coordinate", payload="scalar", kind="shift"))
    out.append(dict(shape=(2, 2, 3), units="voxelcenter", payload="scalar", kind="shift"))
    return out


def _typed_affine(dim, units, translation, angle=None):
    T = darsia.AffineTransformation(dim)
    mk = POINT_KINDS[units][0]
    proto = np.zeros((2, dim))
    T.set_dtype(mk(proto), mk(proto))
    T.set_parameters(np.array(translation, dtype=float), 1.0, None if angle is None else np.array([angle]))
    return T


@ob("C09.warp", cases=_warp_cases, mods=MODS, funcs=FUNCS, stubs=STUBS, samples=(1, 1),
    cite="A transformation-based correction whose map is the identity, a whole-voxel translation or a quarter turn returns exactly "
         "the input array, its zero-filled shift, or its rotation, whether the map is expressed in physical coordinates, voxels or "
         "voxel centres", note="token pixels; concrete physical metadata; every whole-voxel shift in -(n+1)..(n+1) per axis (incl. shifts larger than the image)")
def c09_warp(ctx, shape, units, payload, kind):
    dim = len(shape)
    full = list(shape) + ([2] if payload == "vector" else [])
    arr = ctx.array("a", full)
    h = [0.5, 0.25, 2.0][:dim] if kind != "turn" else [0.5, 0.5]      # quarter turns need isotropic voxels
    dims = [shape[k] * h[k] for k in range(dim)]
    img = darsia.Image(arr, space_dim=dim, scalar=payload == "scalar", dimensions=dims, origin=[1.0, 2.0, 3.0][:dim])
    cs = img.coordinatesystem
    from contracts.C01_coordinates import SPEC

    if kind == "shift":
        import itertools
        rng = [range(-(n + 1), n + 2) for n in shape]
        shifts = list(itertools.product(*rng)) if dim == 2 else [(0, 0, 0), (1, 0, 0), (0, -1, 2), (-2, 1, -1), (0, 0, 4), (3, 0, 0)]
        for sh in shifts:
            # translation that moves the content by `sh` voxels along the matrix axes, expressed in the chosen units
            if units == "coordinate":
                tr = [0.0] * dim
                for m, (ax, sg) in enumerate(SPEC[dim]):
                    tr[ax] = sg * sh[m] * h[m]
            else:
                tr = [float(x) for x in sh]
            C = darsia.TransformationCorrection(cs, cs, _typed_affine(dim, units, tr))
            out = C.correct_array(arr)
            want = np.zeros(arr.shape, dtype=object)
            for v in np.ndindex(*shape):
                src = tuple(v[k] - sh[k] for k in range(dim))
                if all(0 <= src[k] < shape[k] for k in range(dim)):
                    want[v] = arr[src]
            ctx.ensure(f"shift {sh}: output voxel v holds input voxel v - shift, zero outside", same(out, want))
            keep = out.copy()
            other = arr[::-1].copy() if dim == 2 else arr.copy()
            out_other = C.correct_array(other)                          # same object, other data of the same shape
            ctx.ensure(f"shift {sh}: an earlier result is not altered by a later call of the same correction", same(out, keep) and out_other is not out)
            out2 = C.correct_array(arr)
            ctx.ensure(f"shift {sh}: second call through the warp cache gives the same", same(out2, want))
        ctx.ensure("input array untouched", img.img is arr)
    elif kind == "systems":
        # source and destination coordinate systems differ (shape, origin, voxel size); identity map and whole-voxel shifts
        variants = [((2, 5), [0.5, 0.25], [1.0 + 0.25, 2.0 + 0.5]),          # other shape, origin moved by one voxel up / right
                    ((6, 8), [0.25, 0.125], [1.0, 2.0]),                     # twice as fine, same corner
                    ((2, 2), [1.0, 0.5], [1.0 - 0.5, 2.0 - 0.5]),             # twice as coarse, shifted
                    ((4, 3), [0.5, 0.25], [1.0 - 1.0, 2.0 + 1.0])]            # partly outside the source
        for dshape, dh, dorg in variants:
            dst_img = darsia.Image(np.zeros(dshape), space_dim=2, scalar=True, dimensions=[dshape[k] * dh[k] for k in range(2)], origin=list(dorg))
            cd = dst_img.coordinatesystem
            for sh in ((0, 0), (1, 0), (0, -1)):
                if units == "coordinate":
                    tr = [0.0, 0.0]
                    for m, (ax, sg) in enumerate(SPEC[2]):
                        tr[ax] = sg * sh[m] * h[m]
                else:
                    tr = [float(x) for x in sh]
                T = _typed_affine(2, units, tr)
                C = darsia.TransformationCorrection(cs, cd, T)
                out = C.correct_array(arr)
                want = np.zeros((*dshape, *arr.shape[2:]), dtype=object)
                for v in np.ndindex(*dshape):
                    ctr = np.array(v) + 0.5
                    if units == "coordinate":
                        p = np.array([float(x) for x in cd.coordinate(ctr)]) - np.array(tr)
                        sv = [int(x) for x in cs.voxel(p)]
                    elif units == "voxel":
                        sv = [int(np.floor(ctr[k])) - int(sh[k]) for k in range(2)]
                    else:
                        sv = [int(np.floor(ctr[k] - sh[k])) for k in range(2)]
                    if all(0 <= sv[k] < shape[k] for k in range(2)):
                        want[v] = arr[tuple(sv)]
                ctx.ensure(f"dst system {dshape}/{dh}/{dorg}, shift {sh}: every destination voxel holds the source voxel its centre is pulled back into (zero outside)", same(out, want))
        ctx.ensure("input array untouched", img.img is arr)
    else:
        # quarter turns about the image centre (square image)
        n = shape[0]
        for q in (1, 2, 3):
            ang = q * np.pi / 2
            c, s_ = round(np.cos(ang)), round(np.sin(ang))
            if units == "coordinate":
                ctr = np.array([float(cs.coordinate(np.array([n / 2, n / 2]))[k]) for k in range(2)])
            else:
                ctr = np.array([n / 2, n / 2])
            Rm = np.array([[c, -s_], [s_, c]], dtype=float)
            tr = ctr - Rm.dot(ctr)
            T = _typed_affine(2, units, tr, ang)
            C = darsia.TransformationCorrection(cs, cs, T)
            out = C.correct_array(arr)
            want = np.zeros(arr.shape, dtype=object)
            for v in np.ndindex(*shape):
                # destination voxel centre pulled back through the inverse map, in the units of the map
                pv = np.array(v) + 0.5
                p = np.array([float(x) for x in cs.coordinate(pv)]) if units == "coordinate" else pv
                srcp = Rm.T.dot(p - tr)
                sv = np.array([int(x) for x in cs.voxel(srcp)]) if units == "coordinate" else np.floor(srcp).astype(int)
                if all(0 <= sv[k] < shape[k] for k in range(2)):
                    want[v] = arr[tuple(sv)]
            perm_ok = sorted(id(x) for x in want.flat) == sorted(id(x) for x in arr.flat) if ctx.sym else True
            ctx.ensure(f"{q} quarter turn(s): the specification is a permutation of the voxels (rotation of the array)", perm_ok)
            ctx.ensure(f"{q} quarter turn(s): output is exactly the rotated array", same(out, want))
            rot = np.rot90(arr, k=q) if units != "coordinate" else None
            if rot is not None:
                ctx.ensure(f"{q} quarter turn(s): equals np.rot90 up to orientation", same(out, np.rot90(arr, k=q)) or same(out, np.rot90(arr, k=-q)))


@ob("C09.meta", cases=[dict(dim=2), dict(dim=3)], mods=MODS, funcs=FUNCS, stubs=STUBS, samples=(2, 5),
    cite="a coordinate transformation additionally labels the result with the destination coordinate system")
def c09_meta(ctx, dim):
    def mk(tag):
        n = ctx.ints("n" + tag, dim, lo=1, sample=(1, 5))
        d = ctx.reals("d" + tag, dim, pos=True, sample=(0.5, 9.0))
        o = ctx.reals("o" + tag, dim, sample=(-9.0, 9.0))
        return darsia.Image(ctx.shape_array(n), space_dim=dim, scalar=True, dimensions=list(d), origin=list(o), name="img" + tag), n, d, o
    src, ns, ds, os_ = mk("s")
    dst, nd, dd, od = mk("t")
    CT = object.__new__(darsia.CoordinateTransformation)           # constructor fits a map (optimiser): not needed for the metadata contract
    CT.coordinatesystem_src, CT.coordinatesystem_dst, CT.dim = src.coordinatesystem, dst.coordinatesystem, dim
    meta = CT.correct_metadata(src)
    ctx.ensure("dimensions are the destination system's", eq(list(meta["dimensions"]), list(dd)))
    ctx.ensure("origin is the destination system's", eq(list(meta["origin"]), list(od)))
    keep = [k for k in src.metadata() if k not in ("dimensions", "origin")]
    ctx.ensure("everything else is the source image's", all(meta[k] is src.metadata()[k] or meta[k] == src.metadata()[k] for k in keep) and set(meta) == set(src.metadata()))
    ctx.ensure("source image metadata untouched", and_(eq(list(src.dimensions), list(ds)), eq(list(src.origin), list(os_))))


# ---------------------------------------------------------------------------------------------------------------------------------
# fit-based construction (AffineCorrection / CoordinateTransformation from point pairs)

FIT_STUBS = dict(STUBS, **{"optimize.minimize": lambda ctx: stubs.minimize_stub(ctx, monotone=False)})
FIT_FUNCS = FUNCS + ["darsia.corrections.shape.affine:AffineTransformation.fit", "darsia.corrections.shape.affine:AffineCorrection.__init__"]
FIT_SYSTEMS = {2: (((3, 4), [0.5, 0.25], [1.0, 2.0]), ((2, 5), [0.5, 0.25], [1.25, 2.5])),
               3: (((2, 2, 3), [0.5, 0.25, 2.0], [1.0, 2.0, 3.0]), ((3, 2, 2), [0.5, 0.25, 2.0], [0.5, 2.25, 5.0]))}


def _system(shape, h, org):
    dim = len(shape)
    return darsia.Image(np.zeros(shape), space_dim=dim, scalar=True, dimensions=[shape[k] * h[k] for k in range(dim)], origin=list(org)).coordinatesystem


def _centre_coordinates(V, shape, h, org):
    """physical coordinates of the centres of voxels V (rows), from the C01 specification (not through the code under contract)"""
    from contracts.C01_coordinates import SPEC
    dim = len(shape)
    out = np.empty(V.shape, dtype=object)
    for r in range(V.shape[0]):
        for m, (ax, sg) in enumerate(SPEC[dim]):
            out[r, ax] = org[ax] + sg * (V[r, m] + (1 / 2 if False else 0.5)) * h[m]
    return out


def _fit_cases(tier):
    out = []
    for dim in (2, 3):
        for isometry in (False, True):
            for kind in (("voxel", "voxelcenter") if isometry else ("voxel", "voxelcenter", "coordinate")):
                for precond in (True, False):
                    for same in (False, True):
                        if dim == 3 and not (kind == "voxelcenter" or (kind == "coordinate" and precond)):
                            continue
                        out.append(dict(dim=dim, isometry=isometry, kind=kind, precond=precond, same=same))
    return out


@ob("C09.fit", cases=_fit_cases, mods=MODS, funcs=FIT_FUNCS, stubs=FIT_STUBS, samples=(1, 2), budget={"paths": 8, "timeout_ms": 20000, "wall_s": 200},
    cite="A transformation-based correction ... whether the map is expressed in physical coordinates, voxels or voxel centres ... source and "
         "destination systems of different shape and voxel size",
    note="construction from point pairs: the least-squares problem handed to the optimiser is posed on the source points in the SOURCE system and the "
         "destination points in the DESTINATION system (physical voxel-centre coordinates when an isometry is requested), and the resulting map is the "
         "optimiser's map composed with the preconditioning shift; the optimiser itself is an assumed dependency (any result vector)")
def c09_fit(ctx, dim, isometry, kind, precond, same):
    ctx.minimize_calls = []
    (ss, hs, os_), (sd, hd, od) = FIT_SYSTEMS[dim]
    if same:
        sd, hd, od = ss, hs, os_
    cs_s, cs_d = _system(ss, hs, os_), _system(sd, hd, od)
    n = dim + 1
    mk = POINT_KINDS[kind][0]
    if kind == "coordinate":
        P = np.array([[ctx.real(f"p{r}_{m}", sample=(-3.0, 3.0)) for m in range(dim)] for r in range(n)])
        Q = np.array([[ctx.real(f"q{r}_{m}", sample=(-3.0, 3.0)) for m in range(dim)] for r in range(n)])
        src_pts, dst_pts = mk(P), mk(Q)
        P1, Q1 = P, Q
    else:
        V = np.array([[ctx.int(f"v{r}_{m}", sample=(-2, 6)) for m in range(dim)] for r in range(n)])
        W = np.array([[ctx.int(f"w{r}_{m}", sample=(-2, 6)) for m in range(dim)] for r in range(n)])
        src_pts, dst_pts = (mk(V), mk(W)) if kind == "voxel" else (mk(V + 0.5), mk(W + 0.5))
        if isometry:
            P1, Q1 = _centre_coordinates(V, ss, hs, os_), _centre_coordinates(W, sd, hd, od)
        else:
            P1, Q1 = (V, W) if kind == "voxel" else (V + 0.5, W + 0.5)
    opts = {"isometry": isometry, "preconditioning": precond, "tol": 1e-9, "maxiter": 200}
    import contextlib, io
    with stubs.record_minimize(ctx), contextlib.redirect_stdout(io.StringIO()):
        C = darsia.AffineCorrection(cs_s, cs_d, src_pts, dst_pts, dict(opts))
    ctx.ensure("the optimiser is called exactly once", len(ctx.minimize_calls) == 1)
    call = ctx.minimize_calls[0]
    x = np.asarray(call["x"])
    nrot = 1 if dim == 2 else 3
    ctx.ensure("parameter vector length: translation (+ scaling unless isometry) + rotation", x.size == dim + nrot + (0 if isometry else 1))
    if not isometry:
        ctx.assume(x[dim] > 0)          # a fitted scaling factor of zero (or a reflection) is not an affine map in the sense of the property
    pre = (sum(Q1[r] for r in range(n)) - sum(P1[r] for r in range(n))) / n if precond else np.zeros(dim)
    Tx = darsia.AffineTransformation(dim)           # the optimiser's map, decoded as C09.action / C09.rotation2d specify
    Tx.isometry = isometry
    Tx.set_parameters_as_vector(np.array(list(x)))
    Psh = np.array([[P1[r, m] + pre[m] for m in range(dim)] for r in range(n)])
    mapped = Tx.call_array(Psh)
    want_obj = sum((Q1[r, m] - mapped[r, m]) * (Q1[r, m] - mapped[r, m]) for r in range(n) for m in range(dim))
    T = C.transformation
    Z = rows(ctx, "z", 2, dim)
    Zsh = np.array([[Z[r, m] + pre[m] for m in range(dim)] for r in range(2)])
    ctx.ensure("fitted map == optimiser's map composed with the preconditioning shift", eq(T.call_array(Z), Tx.call_array(Zsh)))
    if dim == 2:        # (3-D: C09.inverse proves this for every parameter vector; the three-angle identity is too slow to repeat here)
        ctx.ensure("fitted inverse inverts the fitted map", eq(T.inverse_array(T.call_array(Z)), Z))
    # (evaluating the recorded objective re-parameterises the fitted object, so this comes last)
    ctx.ensure("objective(x) == sum |dst - T_x(src + shift)|^2 with src in the source system and dst in the destination system", eq(call["fun"](np.array(list(x))), want_obj))
    unit = darsia.Coordinate if (isometry or kind == "coordinate") else POINT_KINDS[kind][1]
    ctx.ensure("the map is typed in the units it was fitted in", T.input_dtype is unit and T.output_dtype is unit)
    ctx.ensure("the correction keeps both coordinate systems", C.coordinatesystem_src is cs_s and C.coordinatesystem_dst is cs_d)


def _fit_real_cases(tier):
    out = []
    for isometry in (False, True):
        for kind in (("voxel", "voxelcenter") if isometry else ("voxel", "voxelcenter", "coordinate")):
            for system in ("same", "origin", "shape"):
                out.append(dict(dim=2, isometry=isometry, kind=kind, system=system))
    out.append(dict(dim=3, isometry=True, kind="voxelcenter", system="origin"))
    out.append(dict(dim=3, isometry=False, kind="coordinate", system="shape"))
    return out


@ob("C09.fit_real", kind="B", cases=_fit_real_cases, funcs=FIT_FUNCS, samples=(1, 2), tol=0,
    cite="A transformation-based correction whose map is the identity, a whole-voxel translation ... returns exactly the input array, its zero-filled "
         "shift ... and a coordinate transformation additionally labels the result with the destination coordinate system",
    note="bounded: the real Powell fit on exact voxel-centre point pairs (identity and whole-voxel shifts), source and destination systems equal / other origin / other shape")
def c09_fit_real(ctx, dim, isometry, kind, system):
    import contextlib, io, warnings
    rng = np.random.default_rng(ctx.rng.randrange(1 << 30))
    shape = (5, 6) if dim == 2 else (3, 4, 3)
    h = 0.5
    arr = rng.integers(1, 255, size=shape).astype(float)
    src = darsia.Image(arr.copy(), space_dim=dim, scalar=True, dimensions=[n * h for n in shape], origin=[1.0, 2.0, 3.0][:dim], name="src")
    dshape = shape if system != "shape" else tuple(n + 2 - k for k, n in enumerate(shape))
    dorg = [1.0, 2.0, 3.0][:dim] if system == "same" else [1.0 + 2 * h, 2.0 - h, 3.0 + h][:dim]
    dst = darsia.Image(np.zeros(dshape), space_dim=dim, scalar=True, dimensions=[n * h for n in dshape], origin=dorg, name="dst")
    cs_s, cs_d = src.coordinatesystem, dst.coordinatesystem
    shifts = [(0,) * dim, (1, -1, 0)[:dim], (-2, 0, 1)[:dim], tuple(n + 1 for n in shape)]
    base = np.array([[0] * dim, [shape[0] - 1] + [0] * (dim - 1), [0, shape[1] - 1] + [0] * (dim - 2), [2, 1] + [1] * (dim - 2)] + ([[1, 2, 2], [0, 0, 2]] if dim == 3 else []))
    for sh in shifts:
        V, Wv = base, base + np.array(sh)
        if kind == "voxel":
            ps, pd = darsia.make_voxel(V), darsia.make_voxel(Wv)
        elif kind == "voxelcenter":
            ps, pd = darsia.make_voxel_center(V + 0.5), darsia.make_voxel_center(Wv + 0.5)
        else:
            ps, pd = darsia.make_coordinate(cs_s.coordinate(V + 0.5)), darsia.make_coordinate(cs_d.coordinate(Wv + 0.5))
        with contextlib.redirect_stdout(io.StringIO()), warnings.catch_warnings():
            warnings.simplefilter("ignore")
            CT = darsia.CoordinateTransformation(cs_s, cs_d, ps, pd, fit_options={"tol": 1e-10, "maxiter": 20000, "isometry": isometry})
            res = CT(src)
        want = np.zeros(dshape)
        for v in np.ndindex(*dshape):
            s_ = tuple(v[k] - sh[k] for k in range(dim))
            if all(0 <= s_[k] < shape[k] for k in range(dim)):
                want[v] = arr[s_]
        ctx.tick()
        ctx.ensure(f"shift {sh}: result is exactly the zero-filled shift of the input in the destination canvas", res.img.shape == want.shape and bool(np.array_equal(res.img, want)))
        ctx.ensure(f"shift {sh}: result carries the destination coordinate system", bool(np.allclose(res.origin, dst.origin)) and bool(np.allclose(res.dimensions, dst.dimensions))
                   and res.img.shape[:dim] == dshape)
        ctx.ensure(f"shift {sh}: input image untouched", bool(np.array_equal(src.img, arr)))


@ob("C09.typed_dtypes", kind="B", cases=product_cases(dim=(2, 3), dtype=("int64", "int32", "float32", "float64"), form=("array", "single", "typed-array")), funcs=FUNCS, samples=(3, 8), tol=1e-5,
    cite="an affine map followed by its inverse (in either order) returns the original points ... for every parameter choice (points handed over in any numeric dtype)",
    note="bounded: the numeric dtype of a point array is invisible to the symbolic model (object arrays); points stored as integers / float32 must be mapped like the same points "
         "stored as float64 (after seed C09_e: result cast back to the input dtype)")
def c09_typed_dtypes(ctx, dim, dtype, form):
    T, t, s, th = make_affine(ctx, dim, "all")
    proto = np.zeros((2, dim))
    T.set_dtype(darsia.make_coordinate(proto), darsia.make_coordinate(proto))
    Xi = np.array([[ctx.int(f"p{r}_{m}", lo=-6, hi=6) for m in range(dim)] for r in range(3)])
    X = Xi.astype(dtype)
    ref = T.call_array(Xi.astype(float))
    refi = T.inverse_array(Xi.astype(float))
    if form == "single":
        got, goti = np.asarray(T(X[0]), dtype=float), np.asarray(T.inverse(X[0]), dtype=float)
        ref, refi = ref[0], refi[0]
    elif form == "typed-array":
        got, goti = np.asarray(T(darsia.make_coordinate(X)), dtype=float), np.asarray(T.inverse(darsia.make_coordinate(X)), dtype=float)
    else:
        got, goti = np.asarray(T(X), dtype=float), np.asarray(T.inverse(X), dtype=float)
    ctx.ensure(f"call on {dtype} points == call on the same points as float64", eq(got, ref))
    ctx.ensure(f"inverse on {dtype} points == inverse on the same points as float64", eq(goti, refi))
    back = np.asarray(T.inverse(T(X if form != "single" else X[0])), dtype=float)
    ctx.ensure("inverse(call(x)) == x", eq(back, Xi.astype(float) if form != "single" else Xi[0].astype(float)))


@ob("C09.inverse_small_angles", kind="B", cases=product_cases(dim=(2, 3), scale=(1e-2, 1e-3, 1e-4, 1e-6)), funcs=FUNCS, samples=(4, 12), tol=1e-9,
    cite="For every parameter choice in two and three dimensions an affine map followed by its inverse (in either order) returns the original points",
    note="bounded companion of C09.inverse near the identity rotation: the proof idealises np.isclose guards to equality (assumption A8), so a shortcut taken for 'almost no rotation' is "
         "visible only to concrete runs with small non-zero angles (after seed C09_f)")
def c09_inverse_small_angles(ctx, dim, scale):
    T = darsia.AffineTransformation(dim)
    t = ctx.reals("t", dim, sample=(-5.0, 5.0))
    s = ctx.real("s", pos=True, sample=(0.5, 2.0))
    nrot = 1 if dim == 2 else 3
    th = [scale * ctx.real(f"th{i}", sample=(-4.0, 4.0), nonzero=True) for i in range(nrot)]
    T.set_parameters(np.array(t), s, np.array(th))
    X = 100.0 * rows(ctx, "x", 3, dim)
    ctx.ensure("inverse(call(x)) == x", eq(T.inverse_array(T.call_array(X)), X))
    ctx.ensure("call(inverse(x)) == x", eq(T.call_array(T.inverse_array(X)), X))
    R, Ri = T.rotation, T.rotation_inv
    ctx.ensure("rotation_inv . rotation == identity", eq(Ri.dot(R), np.eye(dim)))
    # the map really rotates: compare with the first-order rotation about the origin (2-D)
    if dim == 2:
        Y = T.call_array(X)
        lin = s * (X + th[0] * np.stack([-X[:, 1], X[:, 0]], axis=1)) + np.array(t)[None, :]
        ctx.ensure("small rotation acts to first order as x + theta * (-y, x)", bool(np.allclose(Y, lin, rtol=0, atol=2 * s * (th[0] ** 2) * 600 + 1e-9)))


@ob("C09.warp_order", kind="B", cases=product_cases(dim=(2, 3), units=("coordinate", "voxel", "voxelcenter"), kind=("shift", "turn")), funcs=FUNCS, samples=(1, 2),
    cite="A transformation-based correction whose map is the identity, a whole-voxel translation or a quarter turn returns exactly the input array, its zero-filled shift, or its rotation",
    note="bounded: 'wrap the transformation in a correction' and 'set its parameters' commute as long as both happen before the first use - the correction applies the map as it IS "
         "when the array is corrected (after seed C09_h: warp table frozen at construction)")
def c09_warp_order(ctx, dim, units, kind):
    rng = np.random.default_rng(ctx.rng.randrange(1 << 30))
    if kind == "turn" and dim == 3:
        ctx.ensure("(quarter turns are stated in 2-D)", True)
        return
    shape = (5, 5) if kind == "turn" else ((4, 6) if dim == 2 else (3, 4, 2))
    arr = rng.random(shape)
    img = darsia.Image(arr.copy(), space_dim=dim, scalar=True, dimensions=[float(n) for n in shape])      # unit voxels
    cs = img.coordinatesystem
    mk = {"coordinate": darsia.make_coordinate, "voxel": darsia.make_voxel, "voxelcenter": darsia.make_voxel_center}[units]

    def build(first):
        T = darsia.AffineTransformation(dim)
        proto = np.zeros((2, dim))
        T.set_dtype(mk(proto), mk(proto))
        shift_vox = np.array([1, -2, 1][:dim])

        def parametrise():
            if kind == "shift":
                if units == "coordinate":
                    t = np.asarray(cs.coordinate_vector(shift_vox.astype(float)), dtype=float)
                else:
                    t = shift_vox.astype(float)
                T.set_parameters(np.array(t, dtype=float), 1.0, np.zeros(1 if dim == 2 else 3))
            else:
                # quarter turn about the image centre
                c = np.asarray(cs.coordinate(np.array([2.5, 2.5])), dtype=float) if units == "coordinate" else (np.array([2.5, 2.5]) if units == "voxel" else np.array([2.0, 2.0]))
                ang = np.pi / 2
                R = np.array([[np.cos(ang), -np.sin(ang)], [np.sin(ang), np.cos(ang)]])
                T.set_parameters(c - R @ c, 1.0, np.array([ang]))
        if first == "parametrise":
            parametrise()
            C = darsia.TransformationCorrection(cs, cs, T)
        else:
            C = darsia.TransformationCorrection(cs, cs, T)
            parametrise()
        return C.correct_array(arr.copy())
    a, b = build("parametrise"), build("wrap")
    ctx.ensure("parametrise-then-wrap == wrap-then-parametrise", a.shape == b.shape and bool(np.allclose(a, b, atol=1e-12)))
    ctx.ensure("the map is not the identity here (the correction does move the data)", not np.allclose(a, arr))


@ob("C09.reparametrise", cases=[dict(dim=2), dict(dim=3)], mods=MODS, funcs=FUNCS, stubs=STUBS, samples=(2, 5), budget={"paths": 16, "timeout_ms": 4000},
    cite="For every parameter choice ... scaling and translation act as documented (the map of an object is the map of the parameters it was given LAST)",
    note="relational: an object whose parameters were set before (other translation, scaling, rotation) and are set again equals a fresh object with the same final parameters - "
         "matrices and action on points (after seed C09_i: 3-D rotations composed onto the rotation already stored)")
def c09_reparametrise(ctx, dim):
    nrot = 1 if dim == 2 else 3
    used = darsia.AffineTransformation(dim)
    t0 = ctx.reals("u", dim, sample=(-5.0, 5.0))
    s0 = ctx.real("s0", pos=True, sample=(0.1, 10.0))
    k = 0 if dim == 2 else 1
    th0 = [ctx.real("a", sample=(-3.0, 3.0)) if i == k else 0.0 for i in range(nrot)]
    used.set_parameters(np.array(t0), s0, np.array(th0))
    t = ctx.reals("t", dim, sample=(-5.0, 5.0))
    s = ctx.real("s", pos=True, sample=(0.1, 10.0))
    k2 = 0 if dim == 2 else 2
    th = [ctx.real("b", sample=(-3.0, 3.0)) if i == k2 else 0.0 for i in range(nrot)]
    used.set_parameters(np.array(t), s, np.array(th))
    fresh = darsia.AffineTransformation(dim)
    fresh.set_parameters(np.array(t), s, np.array(th))
    ctx.ensure("rotation matrix of the re-parametrised object == fresh object's", eq(used.rotation, fresh.rotation))
    ctx.ensure("inverse rotation of the re-parametrised object == fresh object's", eq(used.rotation_inv, fresh.rotation_inv))
    X = rows(ctx, "x", 2, dim)
    ctx.ensure("action on points: re-parametrised == fresh", and_(eq(used.call_array(X), fresh.call_array(X)), eq(used.inverse_array(X), fresh.inverse_array(X))))
    used.set_parameters(np.array(t), s, np.zeros(nrot))
    ctx.ensure("setting a zero rotation afterwards gives the pure scaling + translation", eq(used.call_array(X), s * X + np.array(t)[None, :]))


@ob("C09.dep_scipy", kind="B", samples=(2, 6), funcs=[], tol=1e-12, cite="(validation of assumed dependency contracts)",
    note="the Rotation.from_rotvec stub (structure of the matrix, sign convention, the only constraint c^2 + s^2 = 1) and Powell's monotonicity against the installed scipy")
def c09_dep_scipy(ctx):
    from contracts import deps_validation as dv
    dv.dep_rotation(ctx)
    dv.dep_minimize(ctx)
