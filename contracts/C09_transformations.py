"""C09 — coordinate transformations are invertible and move voxels exactly."""
import numpy as np

import darsia
from vf import stubs
from vf.core import and_, eq, ob, product_cases, same

MODS = ["darsia.corrections.shape.affine", "darsia.corrections.shape.transformation", "darsia.utils.point",
        "darsia.image.coordinatesystem", "darsia.image.indexing", "darsia.image.image", "darsia.image.coordinatetransformation"]
FUNCS = ["darsia.corrections.shape.affine:AffineTransformation.__init__", "darsia.corrections.shape.affine:AffineTransformation.set_parameters",
         "darsia.corrections.shape.affine:AffineTransformation.set_parameters_as_vector",
         "darsia.corrections.shape.affine:AffineTransformation.call_array", "darsia.corrections.shape.affine:AffineTransformation.inverse_array",
         "darsia.corrections.shape.transformation:BaseTransformation.__call__", "darsia.corrections.shape.transformation:BaseTransformation.inverse",
         "darsia.corrections.shape.transformation:BaseTransformation.set_dtype",
         "darsia.corrections.shape.transformation:TransformationCorrection.correct_array",
         "darsia.image.coordinatetransformation:CoordinateTransformation.correct_metadata"]
STUBS = {"Rotation": stubs.rotation_stub}


def make_affine(ctx, dim, angles="all"):
    T = darsia.AffineTransformation(dim)
    t = ctx.reals("t", dim, sample=(-5.0, 5.0))
    s = ctx.real("s", pos=True, sample=(0.1, 10.0))
    nrot = 1 if dim == 2 else 3
    if angles == "all":
        th = ctx.reals("th", nrot, sample=(-3.0, 3.0))
    elif angles == "none":
        th = [0.0] * nrot
    else:
        k = int(angles)
        th = [ctx.real("th", sample=(-3.0, 3.0)) if i == k else 0.0 for i in range(nrot)]
    T.set_parameters(np.array(t), s, np.array(th))
    return T, t, s, th


def rows(ctx, name, n, dim):
    return np.array([[ctx.real(f"{name}{r}_{m}", sample=(-6.0, 6.0)) for m in range(dim)] for r in range(n)])


@ob("C09.inverse", cases=[dict(dim=2, angles="all"), dict(dim=3, angles="0"), dict(dim=3, angles="1"), dict(dim=3, angles="2"), dict(dim=3, angles="all")],
    mods=MODS, funcs=FUNCS, stubs=STUBS, samples=(3, 10), budget={"paths": 16, "timeout_ms": 4000},
    note="z3 first (4 s per VC); polynomial identities modulo c^2+s^2=1 that z3 leaves open are decided by the Groebner fallback (vf/poly.py)",
    cite="an affine map followed by its inverse (in either order) returns the original points, its rotation part is orthonormal "
         "with determinant one")
def c09_inverse(ctx, dim, angles):
    T, t, s, th = make_affine(ctx, dim, angles)
    R, Ri = T.rotation, T.rotation_inv
    I = np.eye(dim)
    ctx.ensure("rotation is orthonormal", eq(R.T.dot(R), I))
    det = (R[0, 0] * R[1, 1] - R[0, 1] * R[1, 0]) if dim == 2 else (
        R[0, 0] * (R[1, 1] * R[2, 2] - R[1, 2] * R[2, 1]) - R[0, 1] * (R[1, 0] * R[2, 2] - R[1, 2] * R[2, 0]) + R[0, 2] * (R[1, 0] * R[2, 1] - R[1, 1] * R[2, 0]))
    ctx.ensure("rotation has determinant one", eq(det, 1))
    ctx.ensure("rotation_inv . rotation == identity", eq(Ri.dot(R), I))
    ctx.ensure("rotation . rotation_inv == identity", eq(R.dot(Ri), I))
    X = rows(ctx, "x", 2, dim)
    ctx.ensure("inverse(call(x)) == x", eq(T.inverse_array(T.call_array(X)), X))
    ctx.ensure("call(inverse(x)) == x", eq(T.call_array(T.inverse_array(X)), X))


@ob("C09.action", cases=[dict(dim=2), dict(dim=3)], mods=MODS, funcs=FUNCS, stubs=STUBS, samples=(3, 10),
    cite="scaling and translation act as documented")
def c09_action(ctx, dim):
    T, t, s, th = make_affine(ctx, dim, "none")
    X = rows(ctx, "x", 2, dim)
    ctx.ensure("without rotation: call(x) = scaling * x + translation", eq(T.call_array(X), s * X + np.array(t)[None, :]))
    ctx.ensure("without rotation: inverse(y) = (y - translation) / scaling", eq(T.inverse_array(X), (X - np.array(t)[None, :]) / s))
    T0 = darsia.AffineTransformation(dim)
    ctx.ensure("freshly constructed transformation is the identity", and_(eq(T0.call_array(X), X), eq(T0.inverse_array(X), X)))
    # parameter vector layout: translation, scaling, rotation
    T2 = darsia.AffineTransformation(dim)
    nrot = 1 if dim == 2 else 3
    T2.set_parameters_as_vector(np.array(list(t) + [s] + [0.0] * nrot))
    ctx.ensure("set_parameters_as_vector: (translation, scaling, rotation)", eq(T2.call_array(X), s * X + np.array(t)[None, :]))
    T3 = darsia.AffineTransformation(dim)
    T3.isometry = True
    T3.set_parameters_as_vector(np.array(list(t) + [0.0] * nrot))
    ctx.ensure("isometry parameter vector: (translation, rotation), unit scaling", eq(T3.call_array(X), X + np.array(t)[None, :]))


@ob("C09.rotation2d", cases=[dict()], mods=MODS, funcs=FUNCS, stubs=STUBS, samples=(3, 10),
    cite="rotation ... act as documented (2-D: counter-clockwise by the angle about the origin)")
def c09_rotation2d(ctx):
    T, t, s, th = make_affine(ctx, 2, "all")
    R = T.rotation
    ctx.ensure("2-D rotation matrix is [[c,-s],[s,c]]", and_(eq(R[0, 0], R[1, 1]), eq(R[0, 1], -R[1, 0]), eq(R[0, 0] * R[0, 0] + R[1, 0] * R[1, 0], 1)))
    if not ctx.sym:
        ctx.ensure("angle convention", and_(eq(R[0, 0], np.cos(th[0])), eq(R[1, 0], np.sin(th[0]))))


POINT_KINDS = {"coordinate": (darsia.make_coordinate, darsia.Coordinate, darsia.CoordinateArray),
               "voxel": (darsia.make_voxel, darsia.Voxel, darsia.VoxelArray),
               "voxelcenter": (darsia.make_voxel_center, darsia.VoxelCenter, darsia.VoxelCenterArray)}


@ob("C09.typed", cases=product_cases(dim=(2, 3), src=tuple(POINT_KINDS), dst=tuple(POINT_KINDS)), mods=MODS, funcs=FUNCS, stubs=STUBS, samples=(2, 5),
    cite="typed in/out conversion (BaseTransformation.__call__, inverse, set_dtype)")
def c09_typed(ctx, dim, src, dst):
    T, t, s, th = make_affine(ctx, dim, "none")
    mk_s, one_s, arr_s = POINT_KINDS[src]
    mk_d, one_d, arr_d = POINT_KINDS[dst]
    proto = np.zeros((2, dim))
    T.set_dtype(mk_s(proto), mk_d(proto))
    ctx.ensure("set_dtype records the point classes", T.input_dtype is one_s and T.output_dtype is one_d and T.input_array_dtype is arr_s and T.output_array_dtype is arr_d)
    X = rows(ctx, "x", 2, dim)
    out = T(X)
    ctx.ensure("call on an array of points returns the destination array class", isinstance(out, arr_d) and out.shape == X.shape)
    one = T(X[0])
    ctx.ensure("call on a single point returns the destination point class", isinstance(one, one_d) and not isinstance(one, arr_d) and one.shape == (dim,))
    back = T.inverse(X)
    ctx.ensure("inverse on an array returns the source array class", isinstance(back, arr_s) and back.shape == X.shape)
    b1 = T.inverse(X[0])
    ctx.ensure("inverse on a single point returns the source point class", isinstance(b1, one_s) and not isinstance(b1, arr_s) and b1.shape == (dim,))
    if dst == "coordinate":
        ctx.ensure("typed call == call_array", and_(eq(np.asarray(out), T.call_array(X)), eq(np.asarray(one), T.call_array(X[:1])[0])))
    if src == "coordinate":
        ctx.ensure("typed inverse == inverse_array", and_(eq(np.asarray(back), T.inverse_array(X)), eq(np.asarray(b1), T.inverse_array(X[:1])[0])))


def _warp_cases(tier):
    out = []
    shapes = [(3, 4)] if tier == "quick" else [(3, 4), (2, 2), (4, 3), (1, 5)]
    for shape in shapes:
        for units in ("coordinate", "voxel", "voxelcenter"):
            for payload in ("scalar", "vector"):
                out.append(dict(shape=shape, units=units, payload=payload, kind="shift"))
    for units in ("coordinate", "voxelcenter"):
        out.append(dict(shape=(3, 3), units=units, payload="scalar", kind="turn"))
    for units in ("coordinate", "voxel", "voxelcenter"):
        out.append(dict(shape=(3, 4), units=units, payload="scalar", kind="systems"))
    out.append(dict(shape=(3, 4), units="coordinate", payload="vector", kind="systems"))
    out.append(dict(shape=(2, 2, 3), units="coordinate", payload="scalar", kind="shift"))
    out.append(dict(shape=(2, 2, 3), units="voxelcenter", payload="scalar", kind="shift"))
    return out


def _typed_affine(dim, units, translation, angle=None):
    T = darsia.AffineTransformation(dim)
    mk = POINT_KINDS[units][0]
    proto = np.zeros((2, dim))
    T.set_dtype(mk(proto), mk(proto))
    T.set_parameters(np.array(translation, dtype=float), 1.0, None if angle is None else np.array([angle]))
    return T


@ob("C09.warp", cases=_warp_cases, mods=MODS, funcs=FUNCS, stubs=STUBS, samples=(1, 1),
    cite="A transformation-based correction whose map is the identity, a whole-voxel translation or a quarter turn returns exactly "
         "the input array, its zero-filled shift, or its rotation, whether the map is expressed in physical coordinates, voxels or "
         "voxel centres", note="token pixels; concrete physical metadata; every whole-voxel shift in -(n+1)..(n+1) per axis (incl. shifts larger than the image)")
def c09_warp(ctx, shape, units, payload, kind):
    dim = len(shape)
    full = list(shape) + ([2] if payload == "vector" else [])
    arr = ctx.array("a", full)
    h = [0.5, 0.25, 2.0][:dim] if kind != "turn" else [0.5, 0.5]      # quarter turns need isotropic voxels
    dims = [shape[k] * h[k] for k in range(dim)]
    img = darsia.Image(arr, space_dim=dim, scalar=payload == "scalar", dimensions=dims, origin=[1.0, 2.0, 3.0][:dim])
    cs = img.coordinatesystem
    from contracts.C01_coordinates import SPEC

    if kind == "shift":
        import itertools
        rng = [range(-(n + 1), n + 2) for n in shape]
        shifts = list(itertools.product(*rng)) if dim == 2 else [(0, 0, 0), (1, 0, 0), (0, -1, 2), (-2, 1, -1), (0, 0, 4), (3, 0, 0)]
        for sh in shifts:
            # translation that moves the content by `sh` voxels along the matrix axes, expressed in the chosen units
            if units == "coordinate":
                tr = [0.0] * dim
                for m, (ax, sg) in enumerate(SPEC[dim]):
                    tr[ax] = sg * sh[m] * h[m]
            else:
                tr = [float(x) for x in sh]
            C = darsia.TransformationCorrection(cs, cs, _typed_affine(dim, units, tr))
            out = C.correct_array(arr)
            want = np.zeros(arr.shape, dtype=object)
            for v in np.ndindex(*shape):
                src = tuple(v[k] - sh[k] for k in range(dim))
                if all(0 <= src[k] < shape[k] for k in range(dim)):
                    want[v] = arr[src]
            ctx.ensure(f"shift {sh}: output voxel v holds input voxel v - shift, zero outside", same(out, want))
            keep = out.copy()
            other = arr[::-1].copy() if dim == 2 else arr.copy()
            out_other = C.correct_array(other)                          # same object, other data of the same shape
            ctx.ensure(f"shift {sh}: an earlier result is not altered by a later call of the same correction", same(out, keep) and out_other is not out)
            out2 = C.correct_array(arr)
            ctx.ensure(f"shift {sh}: second call through the warp cache gives the same", same(out2, want))
        ctx.ensure("input array untouched", img.img is arr)
    elif kind == "systems":
        # source and destination coordinate systems differ (shape, origin, voxel size); identity map and whole-voxel shifts
        variants = [((2, 5), [0.5, 0.25], [1.0 + 0.25, 2.0 + 0.5]),          # other shape, origin moved by one voxel up / right
                    ((6, 8), [0.25, 0.125], [1.0, 2.0]),                     # twice as fine, same corner
                    ((2, 2), [1.0, 0.5], [1.0 - 0.5, 2.0 - 0.5]),             # twice as coarse, shifted
                    ((4, 3), [0.5, 0.25], [1.0 - 1.0, 2.0 + 1.0])]            # partly outside the source
        for dshape, dh, dorg in variants:
            dst_img = darsia.Image(np.zeros(dshape), space_dim=2, scalar=True, dimensions=[dshape[k] * dh[k] for k in range(2)], origin=list(dorg))
            cd = dst_img.coordinatesystem
            for sh in ((0, 0), (1, 0), (0, -1)):
                if units == "coordinate":
                    tr = [0.0, 0.0]
                    for m, (ax, sg) in enumerate(SPEC[2]):
                        tr[ax] = sg * sh[m] * h[m]
                else:
                    tr = [float(x) for x in sh]
                T = _typed_affine(2, units, tr)
                C = darsia.TransformationCorrection(cs, cd, T)
                out = C.correct_array(arr)
                want = np.zeros((*dshape, *arr.shape[2:]), dtype=object)
                for v in np.ndindex(*dshape):
                    ctr = np.array(v) + 0.5
                    if units == "coordinate":
                        p = np.array([float(x) for x in cd.coordinate(ctr)]) - np.array(tr)
                        sv = [int(x) for x in cs.voxel(p)]
                    elif units == "voxel":
                        sv = [int(np.floor(ctr[k])) - int(sh[k]) for k in range(2)]
                    else:
                        sv = [int(np.floor(ctr[k] - sh[k])) for k in range(2)]
                    if all(0 <= sv[k] < shape[k] for k in range(2)):
                        want[v] = arr[tuple(sv)]
                ctx.ensure(f"dst system {dshape}/{dh}/{dorg}, shift {sh}: every destination voxel holds the source voxel its centre is pulled back into (zero outside)", same(out, want))
        ctx.ensure("input array untouched", img.img is arr)
    else:
        # quarter turns about the image centre (square image)
        n = shape[0]
        for q in (1, 2, 3):
            ang = q * np.pi / 2
            c, s_ = round(np.cos(ang)), round(np.sin(ang))
            if units == "coordinate":
                ctr = np.array([float(cs.coordinate(np.array([n / 2, n / 2]))[k]) for k in range(2)])
            else:
                ctr = np.array([n / 2, n / 2])
            Rm = np.array([[c, -s_], [s_, c]], dtype=float)
            tr = ctr - Rm.dot(ctr)
            T = _typed_affine(2, units, tr, ang)
            C = darsia.TransformationCorrection(cs, cs, T)
            out = C.correct_array(arr)
            want = np.zeros(arr.shape, dtype=object)
            for v in np.ndindex(*shape):
                # destination voxel centre pulled back through the inverse map, in the units of the map
                pv = np.array(v) + 0.5
                p = np.array([float(x) for x in cs.coordinate(pv)]) if units == "coordinate" else pv
                srcp = Rm.T.dot(p - tr)
                sv = np.array([int(x) for x in cs.voxel(srcp)]) if units == "coordinate" else np.floor(srcp).astype(int)
                if all(0 <= sv[k] < shape[k] for k in range(2)):
                    want[v] = arr[tuple(sv)]
            perm_ok = sorted(id(x) for x in want.flat) == sorted(id(x) for x in arr.flat) if ctx.sym else True
            ctx.ensure(f"{q} quarter turn(s): the specification is a permutation of the voxels (rotation of the array)", perm_ok)
            ctx.ensure(f"{q} quarter turn(s): output is exactly the rotated array", same(out, want))
            rot = np.rot90(arr, k=q) if units != "coordinate" else None
            if rot is not None:
                ctx.ensure(f"{q} quarter turn(s): equals np.rot90 up to orientation", same(out, np.rot90(arr, k=q)) or same(out, np.rot90(arr, k=-q)))


@ob("C09.meta", cases=[dict(dim=2), dict(dim=3)], mods=MODS, funcs=FUNCS, stubs=STUBS, samples=(2, 5),
    cite="a coordinate transformation additionally labels the result with the destination coordinate system")
def c09_meta(ctx, dim):
    def mk(tag):
        n = ctx.ints("n" + tag, dim, lo=1, sample=(1, 5))
        d = ctx.reals("d" + tag, dim, pos=True, sample=(0.5, 9.0))
        o = ctx.reals("o" + tag, dim, sample=(-9.0, 9.0))
        return darsia.Image(ctx.shape_array(n), space_dim=dim, scalar=True, dimensions=list(d), origin=list(o), name="img" + tag), n, d, o
    src, ns, ds, os_ = mk("s")
    dst, nd, dd, od = mk("t")
    CT = object.__new__(darsia.CoordinateTransformation)           # constructor fits a map (optimiser): not needed for the metadata contract
    CT.coordinatesystem_src, CT.coordinatesystem_dst, CT.dim = src.coordinatesystem, dst.coordinatesystem, dim
    meta = CT.correct_metadata(src)
    ctx.ensure("dimensions are the destination system's", eq(list(meta["dimensions"]), list(dd)))
    ctx.ensure("origin is the destination system's", eq(list(meta["origin"]), list(od)))
    keep = [k for k in src.metadata() if k not in ("dimensions", "origin")]
    ctx.ensure("everything else is the source image's", all(meta[k] is src.metadata()[k] or meta[k] == src.metadata()[k] for k in keep) and set(meta) == set(src.metadata()))
    ctx.ensure("source image metadata untouched", and_(eq(list(src.dimensions), list(ds)), eq(list(src.origin), list(os_))))
