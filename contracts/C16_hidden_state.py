"""C16 — solvers and regularisers carry no hidden state between calls (relational obligations: used object vs fresh object)."""
import itertools

import numpy as np

import darsia
from vf import frame
from vf.core import and_, eq, ob, product_cases

MODS = ["darsia.utils.linear_solvers.jacobi", "darsia.utils.linear_solvers.mg", "darsia.utils.linear_solvers.solver",
        "darsia.restoration.h1_regularization", "darsia.utils.derivatives"]
FUNCS = ["darsia.utils.linear_solvers.jacobi:Jacobi.__call__", "darsia.utils.linear_solvers.jacobi:Jacobi._diag",
         "darsia.utils.linear_solvers.jacobi:Jacobi._neighbor_accumulation", "darsia.utils.linear_solvers.solver:Solver.update_params",
         "darsia.utils.linear_solvers.mg:MG.__call__", "darsia.utils.linear_solvers.mg:MG.base_V_Cycle", "darsia.utils.linear_solvers.mg:MG.update_params",
         "darsia.restoration.h1_regularization:H1_regularization", "darsia.restoration.h1_regularization:_H1_regularization_array",
         "darsia.utils.andersonacceleration:AndersonAcceleration.__call__", "darsia.restoration.split_bregman_tvd:split_bregman_tvd",
         "darsia.restoration.tvd:TVD.__call__"]
FRAME_MODS = ["darsia.utils.linear_solvers.jacobi", "darsia.utils.linear_solvers.mg", "darsia.utils.linear_solvers.solver",
              "darsia.restoration.h1_regularization"]
SHAPES = {"1d": (3,), "2d": (2, 3), "3d": (2, 2, 2)}


def params(ctx, tag, hetero=False, shape=None):
    if hetero:
        return (ctx.array("m" + tag, shape, pos=True, sample=(0.5, 2.0)), ctx.array("k" + tag, shape, pos=True, sample=(0.5, 2.0)))
    return ctx.real("m" + tag, pos=True, sample=(0.5, 2.0)), ctx.real("k" + tag, pos=True, sample=(0.5, 2.0))


def jacobi_spec(x, rhs, m, k, h, dim, iters):
    """iters Jacobi sweeps for  m x - k laplace(x) = rhs  with ghost-copy boundary (finite differences, mesh size h)."""
    for _ in range(iters):
        nb = np.zeros(x.shape, dtype=object)
        for v in np.ndindex(*x.shape):
            s = 0
            for ax in range(x.ndim):
                for dlt in (-1, 1):
                    w = list(v)
                    w[ax] = min(max(w[ax] + dlt, 0), x.shape[ax] - 1)
                    s = s + x[tuple(w)]
            nb[v] = s
        diag = m + k * 2 * dim / (h * h)
        x = (rhs + k * nb / (h * h)) / diag
    return x


HIST = ("other-h", "other-coeffs", "other-shape", "update-then-other-h")


@ob("C16.jacobi", cases=product_cases(form=tuple(SHAPES), history=HIST + ("two-calls",), iters=(1, 2)), mods=MODS, funcs=FUNCS, samples=(2, 5),
    budget={"timeout_ms": 8000, "wall_s": 90},
    cite="The result of a Jacobi ... solve ... depends only on the arguments of that call (including the grid spacing and coefficients "
         "passed or set for it), not on earlier calls made in the same process or with the same object")
def c16_jacobi(ctx, form, history, iters):
    shape = SHAPES[form]
    dim = len(shape)
    before = frame.snapshot(FRAME_MODS)
    m, k = params(ctx, "")
    h = ctx.real("h", pos=True, sample=(0.3, 2.0))
    x0, rhs = ctx.array("x", shape, sample=(-1.0, 1.0)), ctx.array("r", shape, sample=(-1.0, 1.0))
    m2, k2 = params(ctx, "2")
    h2 = ctx.real("h2", pos=True, sample=(0.3, 2.0))
    used = darsia.Jacobi(maxiter=iters, dim=dim, mass_coeff=m2 if history != "other-h" else m, diffusion_coeff=k2 if history != "other-h" else k)
    y0, yr = ctx.array("y", shape, sample=(-1.0, 1.0)), ctx.array("s", shape, sample=(-1.0, 1.0))
    if history == "other-shape":
        oshape = tuple(n + 1 for n in shape)
        used(ctx.array("yy", oshape, sample=(-1.0, 1.0)), ctx.array("ss", oshape, sample=(-1.0, 1.0)), h=h2)
    elif history == "two-calls":
        used(y0, yr, h=h2)
        used(yr, y0, h=h)
    else:
        used(y0, yr, h=h2)
    if history == "update-then-other-h":
        used.update_params(mass_coeff=m2, diffusion_coeff=k2)
        used(y0, yr, h=h2 + 1)
    used.update_params(dim=dim, mass_coeff=m, diffusion_coeff=k)
    fresh = darsia.Jacobi(maxiter=iters, dim=dim, mass_coeff=m, diffusion_coeff=k)
    got_used, got_fresh = used(x0, rhs, h=h), fresh(x0, rhs, h=h)
    ctx.ensure("used object (after update_params to the same coefficients) == fresh object", eq(got_used, got_fresh))
    if iters == 1 or not ctx.sym:
        ctx.ensure("result is the Jacobi sweep for the coefficients and mesh size of THIS call", eq(got_fresh, jacobi_spec(x0, rhs, m, k, h, dim, iters)))
    # a call that leaves an optional argument to its documented default gets THAT default, not what an earlier call passed
    never = darsia.Jacobi(maxiter=iters, dim=dim, mass_coeff=m, diffusion_coeff=k)
    ctx.ensure("a call omitting h after calls with an explicit h == the same call on an object never given an h", eq(used(x0, rhs), never(x0, rhs)))
    ctx.ensure("arguments untouched", True)
    ctx.ensure("no module- or class-level state written (frame)", frame.diff(before, frame.snapshot(FRAME_MODS)) == [])


def _mg_cases(tier):
    out = []
    for shape in ((4, 4), (5, 4)) if tier == "quick" else ((4, 4), (5, 4), (6, 5), (4, 4, 4)):
        for hetero in (False, True):
            for history in ("same-args", "other-args", "update"):
                out.append(dict(shape=shape, hetero=hetero, history=history))
    return out


@ob("C16.mg", cases=_mg_cases, mods=MODS, funcs=FUNCS, samples=(1, 3), budget={"timeout_ms": 8000, "wall_s": 90},
    cite="The result of a ... multigrid solve ... depends only on the arguments of that call", note="one V-cycle, depth 1, one smoothing sweep; homogeneous and heterogeneous coefficients")
def c16_mg(ctx, shape, hetero, history):
    dim = len(shape)
    m, k = params(ctx, "", hetero, shape)
    x0, rhs = ctx.array("x", shape, sample=(-1.0, 1.0)), ctx.array("r", shape, sample=(-1.0, 1.0))
    mk = lambda a, b: darsia.MG(depth=1, smoother_iterations=1, maxiter=1, dim=dim, mass_coeff=a, diffusion_coeff=b)
    if history == "update":
        m2, k2 = params(ctx, "2", hetero, shape)
        used = mk(m2, k2)
        used(ctx.array("y", shape, sample=(-1.0, 1.0)), ctx.array("s", shape, sample=(-1.0, 1.0)))
        used.update_params(mass_coeff=m, diffusion_coeff=k)
    else:
        used = mk(m, k)
        if history == "same-args":
            used(x0.copy(), rhs.copy())
        else:
            used(ctx.array("y", shape, sample=(-1.0, 1.0)), ctx.array("s", shape, sample=(-1.0, 1.0)))
    fresh = mk(m, k)
    ctx.ensure("used multigrid object == fresh multigrid object", eq(used(x0.copy(), rhs.copy()), fresh(x0.copy(), rhs.copy())))
    if hetero:
        ctx.ensure("coefficients of the object unchanged by a solve", and_(eq(used.mass_coeff, m), eq(used.diffusion_coeff, k)))


@ob("C16.h1", cases=product_cases(form=("2d", "1d"), history=("default-after-other", "default-after-other-shape", "explicit-vs-default")), mods=MODS, funcs=FUNCS, samples=(1, 3), budget={"timeout_ms": 8000, "wall_s": 90},
    stubs={"skimage.img_as_float": lambda ctx: (lambda a: a), "da.convert_dtype": lambda ctx: (lambda a, dt: a)},
    cite="an H1 regularisation ... the library's default solver instance included")
def c16_h1(ctx, form, history):
    shape = SHAPES[form]
    dim = len(shape)
    before = frame.snapshot(FRAME_MODS)
    mu, om = ctx.real("mu", pos=True, sample=(0.2, 2.0)), ctx.real("om", pos=True, sample=(0.5, 2.0))
    img = ctx.array("x", shape, sample=(0.0, 1.0))
    mu2, om2 = ctx.real("mu2", pos=True, sample=(0.2, 2.0)), ctx.real("om2", pos=True, sample=(0.5, 2.0))
    if history == "default-after-other":
        darsia.H1_regularization(ctx.array("y", shape, sample=(0.0, 1.0)), mu2, om2, dim=dim)
    elif history == "default-after-other-shape":
        darsia.H1_regularization(ctx.array("y", (3, 2), sample=(0.0, 1.0)), mu2, om2, dim=2)
    got = darsia.H1_regularization(img, mu, om, dim=dim)
    ref = darsia.H1_regularization(img, mu, om, dim=dim, solver=darsia.Jacobi())
    ctx.ensure("default solver instance gives what an explicit fresh solver gives", eq(got, ref))
    ctx.ensure("H1 regularisation is one Jacobi sweep of (omega - mu laplace) u = omega img from u0 = img", eq(ref, jacobi_spec(img, om * img, om, mu, 1, dim, 1)))
    ctx.ensure("no module- or class-level state written (frame)", frame.diff(before, frame.snapshot(FRAME_MODS)) == [])


# ---- bounded: numba / skimage / scipy based iterations, Wasserstein objects --------------------------------------------------

def _rel(a, b):
    return bool(np.allclose(np.asarray(a, dtype=float), np.asarray(b, dtype=float), rtol=1e-12, atol=1e-14))


@ob("C16.tvd", kind="B", cases=product_cases(method=("chambolle", "anisotropic bregman", "isotropic bregman", "heterogeneous bregman"), history=("other-weight", "other-shape")), funcs=FUNCS, samples=(1, 2),
    cite="a total-variation denoising ... depends only on the arguments of that call", note="bounded: numba / skimage kernels; used vs fresh objects, module-level default solver included")
def c16_tvd(ctx, method, history):
    rng = np.random.default_rng(ctx.rng.randrange(1 << 30))
    img = rng.random((6, 5))
    other = rng.random((6, 5) if history == "other-weight" else (4, 7))
    before = frame.snapshot(FRAME_MODS + ["darsia.restoration.tvd", "darsia.restoration.split_bregman_tvd"])
    kw = dict(method=method, weight=0.2, max_num_iter=5, eps=1e-6)
    first = darsia.TVD(**kw)(img.copy())
    darsia.TVD(**dict(kw, weight=0.7))(other.copy())
    if method == "heterogeneous bregman":
        darsia.split_bregman_tvd(other.copy(), mu=0.9, ell=2.0, dim=2, max_num_iter=3, isotropic=True)
    again = darsia.TVD(**kw)(img.copy())
    ctx.ensure("same call after other calls gives the identical result", _rel(first, again))
    used = darsia.TVD(**kw)
    used(other.copy())
    ctx.ensure("re-used TVD object == fresh TVD object", _rel(used(img.copy()), first))
    ctx.ensure("no module- or class-level state written (frame)", frame.diff(before, frame.snapshot(FRAME_MODS + ["darsia.restoration.tvd", "darsia.restoration.split_bregman_tvd"])) == [])


def _anderson_cases(tier):
    out = []
    for depth, restart in ((1, None), (3, None), (1, 2), (3, 2), (3, 4), (2, 3), (3, 5), (5, 3), (4, 6), (3, 6)):
        for start in ((0,) if restart is None else (0, 1, 2)):          # the final run starts at iteration start * restart (a restart boundary)
            for tensor in (False, True):
                out.append(dict(depth=depth, restart=restart, tensor=tensor, start=start))
    return out


@ob("C16.anderson", kind="B", cases=_anderson_cases, funcs=FUNCS, samples=(1, 3),
    cite="an Anderson-accelerated iteration ... depends only on the arguments of that call ... Anderson restart boundaries",
    note="bounded: scipy.linalg.lstsq; re-used accelerator (earlier run, then a run starting at iteration 0 or at a later restart boundary) vs fresh accelerator given the same calls")
def c16_anderson(ctx, depth, restart, tensor, start=0):
    rng = np.random.default_rng(ctx.rng.randrange(1 << 30))
    n = 6
    A = 0.3 * rng.random((n, n)) / n
    b = rng.random(n)

    first_it = start * (restart or 0)

    def run(acc, x, iters=None, begin=0):
        shape = (2, 3) if tensor else (n,)
        out = []
        for it in range(begin, begin + (iters or 2 * (restart or 4) + 3)):
            g = A @ x.ravel() + b
            f = g - x.ravel()
            x = np.asarray(acc(g.reshape(shape), f.reshape(shape), it)).reshape(-1)
            out.append(x.copy())
        return out
    dimarg = (2, 3) if tensor else n
    used = darsia.AndersonAcceleration(dimarg, depth, restart)
    run(used, rng.random(n), iters=max(5, first_it))                 # earlier, unrelated iteration (runs up to the boundary the final run starts at)
    x0 = rng.random(n)
    a = run(used, x0.copy(), begin=first_it)
    fresh = darsia.AndersonAcceleration(dimarg, depth, restart)
    c = run(fresh, x0.copy(), begin=first_it)
    ctx.ensure(f"re-used accelerator (run starting at the restart boundary {first_it}) reproduces a fresh accelerator step by step", all(_rel(p, q) for p, q in zip(a, c)))


@ob("C16.jacobi_inplace", cases=product_cases(form=("1d", "2d"), which=("mass", "diffusion", "both")), mods=MODS, funcs=FUNCS, samples=(2, 5),
    budget={"timeout_ms": 8000, "wall_s": 90},
    cite="depends only on the arguments of that call (including the grid spacing and coefficients passed or set for it)",
    note="array-valued coefficients changed IN PLACE between two calls of the same solver object (also the library's default solver instance through H1_regularization)")
def c16_jacobi_inplace(ctx, form, which):
    shape = SHAPES[form]
    dim = len(shape)
    m = ctx.array("m", shape, pos=True, sample=(0.5, 2.0))
    k = ctx.array("k", shape, pos=True, sample=(0.5, 2.0))
    m2 = ctx.array("mm", shape, pos=True, sample=(0.5, 2.0))
    k2 = ctx.array("kk", shape, pos=True, sample=(0.5, 2.0))
    x0, rhs = ctx.array("x", shape, sample=(-1.0, 1.0)), ctx.array("r", shape, sample=(-1.0, 1.0))
    h = ctx.real("h", pos=True, sample=(0.3, 2.0))
    used = darsia.Jacobi(maxiter=1, dim=dim, mass_coeff=m, diffusion_coeff=k)
    used(x0, rhs, h=h)
    if which in ("mass", "both"):
        m[...] = m2
    if which in ("diffusion", "both"):
        k[...] = k2
    fresh = darsia.Jacobi(maxiter=1, dim=dim, mass_coeff=m.copy(), diffusion_coeff=k.copy())
    ctx.ensure("after an in-place change of the coefficient arrays the used solver == a fresh solver with the new values", eq(used(x0, rhs, h=h), fresh(x0, rhs, h=h)))
    ctx.ensure("and equals the Jacobi sweep for the coefficients as they are at THIS call", eq(fresh(x0, rhs, h=h), jacobi_spec(x0, rhs, m, k, h, dim, 1)))


@ob("C16.wasserstein_reuse", kind="B", cases=product_cases(method=("newton", "bregman", "bregman-adaptive", "bregman-anderson"), ls=("direct", "amg")), funcs=FUNCS, samples=(1, 2), tol=1e-9,
    cite="a Wasserstein distance computed with a re-used solver object depends only on the arguments of that call ... called on successive input pairs",
    note="bounded: real solvers; an object used on one pair and re-used on a second vs a fresh object on the second pair")
def c16_wasserstein_reuse(ctx, method, ls):
    import warnings
    from contracts.wass_common import base_options, grid_of, images, solver
    rng = np.random.default_rng(ctx.rng.randrange(1 << 30))
    shape = (4, 3)
    grid, h = grid_of(shape)
    p1, p2 = images(shape, h, rng), images(shape, h, rng)
    extra = {}
    m = "newton" if method == "newton" else "bregman"
    if method == "bregman-adaptive":
        extra["bregman_update"] = lambda it: it % 3 == 0
    if method == "bregman-anderson":
        extra.update(aa_depth=2, aa_restart=3)
    opts = base_options(num_iter=12, linear_solver=ls, formulation="pressure", **extra)
    with warnings.catch_warnings():
        warnings.simplefilter("ignore")
        used = solver(m, grid, opts)
        used(*p1)
        d_used, i_used = used(*p2)
        fresh = solver(m, grid, opts)
        d_fresh, i_fresh = fresh(*p2)
    ctx.ensure("distance of the re-used object == distance of a fresh object", abs(d_used - d_fresh) <= 1e-9 * max(1.0, abs(d_fresh)))
    ctx.ensure("flux of the re-used object == flux of a fresh object", bool(np.allclose(i_used["flux"], i_fresh["flux"], rtol=1e-8, atol=1e-10)))
    ctx.ensure("pressure of the re-used object == pressure of a fresh object", bool(np.allclose(i_used["pressure"], i_fresh["pressure"], rtol=1e-7, atol=1e-9)))


# ---- relational proofs over the real Wasserstein iterations and the real Anderson accelerator (machinery of C04.step) ---------------------

from .C04_wasserstein import STEP_STUBS, _abstract_mobility_and_cost  # noqa: E402


def _configuration(obj):
    """scalar configuration attributes of a solver object (numbers, strings, flags, enums, None) - caches and arrays are not configuration"""
    import enum
    from vf.sym import is_sym
    out = {}
    for k, v in vars(obj).items():
        if isinstance(v, (bool, int, float, str, type(None), enum.Enum, np.integer, np.floating)) or is_sym(v):
            out[k] = v
    return out


def _same_value(a, b):
    from vf.sym import is_sym
    if is_sym(a) or is_sym(b) or (isinstance(a, (int, float, np.integer, np.floating)) and not isinstance(a, bool) and isinstance(b, (int, float, np.integer, np.floating)) and not isinstance(b, bool)):
        return eq(a, b)
    return type(a) is type(b) and a == b


def _reuse_cases(tier):
    out = []
    for method in ("newton", "bregman"):
        for form in ("full", "pressure"):
            out.append(dict(shape=(2, 2), method=method, form=form, variant="plain"))
        out.append(dict(shape=(2, 2), method=method, form="pressure", variant="anderson"))
    out.append(dict(shape=(2, 2), method="bregman", form="pressure", variant="adaptive"))
    out.append(dict(shape=(2, 2), method="bregman", form="full", variant="adaptive-homogeneous"))
    out.append(dict(shape=(3,), method="bregman", form="pressure", variant="adaptive-homogeneous"))
    out.append(dict(shape=(3,), method="newton", form="full", variant="anderson"))
    if tier != "quick":
        for s in ((3, 2), (2, 1, 2)):
            for method in ("newton", "bregman"):
                out.append(dict(shape=s, method=method, form="pressure", variant="plain"))
    return out


@ob("C16.wasserstein_reuse_sym", cases=_reuse_cases, mods=["darsia.measure.wasserstein", "darsia.utils.fv", "darsia.utils.andersonacceleration"], stubs=STEP_STUBS,
    funcs=["darsia.measure.wasserstein:WassersteinDistanceNewton._solve", "darsia.measure.wasserstein:WassersteinDistanceBregman._solve",
           "darsia.measure.wasserstein:WassersteinDistanceBregman._update_regularization", "darsia.measure.wasserstein:VariationalWassersteinDistance.linear_solve",
           "darsia.utils.andersonacceleration:AndersonAcceleration.__call__"],
    samples=(1, 2), budget={"timeout_ms": 30000, "paths": 64, "decide_ms": 1500, "arith_solver": 2, "wall_s": 400}, tol=1e-6,
    assumes=["splu / lstsq / mobility / cost are FUNCTIONS of their arguments (same argument terms => same result symbols); otherwise arbitrary",
             "sparse-matrix model vf/symsparse.py (validated by C08.dep_sparse)"],
    cite="a Wasserstein distance computed with a re-used solver object depends only on the arguments of that call ... not on earlier calls made ... with the same object",
    note="relational, on the real _solve: an object that has solved one (symbolic) pair and is re-used on a second pair returns, entry for entry, the solution, distance and flags of a "
         "fresh object on the second pair - for all data; the factorisation, mobility, cost and least-squares solve are uninterpreted functions of their arguments (after seed C16_f: "
         "a penalty parameter adapted in one call and kept for the next)")
def c16_wasserstein_reuse_sym(ctx, shape, method, form, variant):
    import warnings
    from contracts.wass_common import base_options, grid_of, solver
    grid, h = grid_of(shape)
    extra = {}
    if variant == "anderson":
        extra.update(aa_depth=2)
    if variant.startswith("adaptive"):
        extra["bregman_update"] = lambda it: it == 1
        extra["bregman_homogeneous"] = variant.endswith("homogeneous")
    opts = base_options(formulation=form, linear_solver="direct", num_iter=2, tol_residual=2.0 ** -10, tol_increment=2.0 ** -10, tol_distance=2.0 ** -10, **extra)
    nc = int(grid.num_cells)

    def zero_mean(name):
        f = ctx.array(name, (nc - 1,), sample=(-1.0, 1.0))
        return np.concatenate([f, [-sum(f)]])
    fa, fb = zero_mean("fa"), zero_mean("fb")
    used, fresh = solver(method, grid, opts), solver(method, grid, opts)
    if ctx.sym:
        _abstract_mobility_and_cost(ctx, used)
        _abstract_mobility_and_cost(ctx, fresh)
    conf0 = _configuration(used)
    with warnings.catch_warnings():
        warnings.simplefilter("ignore")
        used._solve(fa.copy())
        conf1 = _configuration(used)
        du, su, iu = used._solve(fb.copy())
        df, sf, if_ = fresh._solve(fb.copy())
    # frame: a call does not write the object's configuration (penalty parameter L, regularisation, modes, tolerances, formulation ...): scalar
    # attributes are the same before and after - whatever they are afterwards would be the 'earlier call' of the next one
    ctx.ensure("frame: the scalar configuration attributes of the solver object exist unchanged after a call", sorted(conf0) == sorted(conf1))
    for k in sorted(conf0):
        if k in conf1:
            ctx.ensure(f"frame: attribute {k} is not written by a call", _same_value(conf0[k], conf1[k]))
    for i in range(len(sf)):
        ctx.ensure(f"solution entry {i}: re-used object == fresh object", eq(su[i], sf[i]))
    ctx.ensure("distance: re-used object == fresh object", eq(du, df))
    ctx.ensure("flags: converged and number of iterations agree", iu["converged"] == if_["converged"] and iu["number_iterations"] == if_["number_iterations"])


@ob("C16.anderson_sym", cases=product_cases(depth=(1, 2, 3), restart=(None, 2, 3, 4), start=(0, 1)), mods=["darsia.utils.andersonacceleration"],
    stubs={"sp.linalg.lstsq": STEP_STUBS["sp.linalg.lstsq"]}, funcs=["darsia.utils.andersonacceleration:AndersonAcceleration.__call__", "darsia.utils.andersonacceleration:AndersonAcceleration.reset"],
    samples=(1, 2), budget={"timeout_ms": 20000, "decide_ms": 1500}, tol=1e-7,
    assumes=["scipy.linalg.lstsq is a FUNCTION of (A, b): same argument terms => same coefficients; otherwise arbitrary"],
    cite="an Anderson-accelerated iteration ... depends only on the arguments of that call ... not on earlier calls made ... with the same object",
    note="relational, on the real AndersonAcceleration.__call__: an accelerator that served an earlier (symbolic) iteration and then a run starting at iteration 0 / at a restart boundary "
         "returns, step by step, what a fresh accelerator returns for the same calls - all data, all depths / restarts incl. restart not a multiple of depth")
def c16_anderson_sym(ctx, depth, restart, start):
    if start and restart is None:
        ctx.ensure("(no restart: a later start is not a reset point - nothing to state)", True)
        return
    n = 2
    first = start * (restart or 0)
    steps = (restart or 3) + 2
    used = darsia.AndersonAcceleration(n, depth, restart)
    fresh = darsia.AndersonAcceleration(n, depth, restart)
    # earlier, unrelated iteration on the used object (runs up to the boundary the final run starts at)
    for it in range(max(3, first)):
        used(ctx.array(f"hg{it}", (n,), sample=(-1.0, 1.0)), ctx.array(f"hf{it}", (n,), sample=(-1.0, 1.0)), it)
    for k in range(steps):
        g, f = ctx.array(f"g{k}", (n,), sample=(-1.0, 1.0)), ctx.array(f"f{k}", (n,), sample=(-1.0, 1.0))
        a = used(g.copy(), f.copy(), first + k)
        b = fresh(g.copy(), f.copy(), first + k)
        ctx.ensure(f"call {k} (iteration {first + k}): re-used accelerator == fresh accelerator", eq(np.asarray(a), np.asarray(b)))


@ob("C16.mg_sizes", kind="B", cases=product_cases(depth=(1, 2, 3), small=((4, 4), (5, 40), (2, 3))), funcs=FUNCS, samples=(1, 2), tol=1e-12,
    cite="The result of a ... multigrid solve ... depends only on the arguments of that call ... not on earlier calls made ... with the same object",
    note="bounded: a multigrid object that first saw a SMALL array (served, or refused because the hierarchy does not fit) and then a large one returns what a fresh object returns for "
         "the large one, and its configuration (depth, iteration counts, dimension) is what it was constructed with (after seed C16_h: depth limited for a small array and kept)")
def c16_mg_sizes(ctx, depth, small):
    rng = np.random.default_rng(ctx.rng.randrange(1 << 30))
    mk = lambda: darsia.MG(depth=depth, smoother_iterations=2, maxiter=3, dim=2, mass_coeff=1.0, diffusion_coeff=40.0)
    used, fresh = mk(), mk()
    conf0 = _configuration(used)
    try:
        used(rng.random(small), rng.random(small))
    except Exception:      # noqa: BLE001 - a hierarchy that does not fit the array is refused
        pass
    ctx.ensure("configuration attributes unchanged by the earlier call", _configuration(used) == conf0)
    big = (32, 32)
    x0, rhs = rng.random(big), rng.random(big)
    a, b = used(x0.copy(), rhs.copy()), fresh(x0.copy(), rhs.copy())
    ctx.ensure("result on the large array: object that saw a small array before == fresh object", bool(np.array_equal(a, b)))


@ob("C16.dep_numeric", kind="B", samples=(2, 6), funcs=[], tol=1e-11, cite="(validation of assumed dependency contracts)",
    note="the relational proofs assume splu / lstsq are FUNCTIONS of their arguments: checked on the installed scipy (identical results for equal arguments)")
def c16_dep_numeric(ctx):
    from contracts import deps_validation as dv
    dv.dep_lstsq(ctx)
    dv.dep_splu(ctx)
