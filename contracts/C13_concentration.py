"""C13 — concentration analysis zeroes the baseline and applies its stages in the documented order."""
import itertools

import numpy as np

import darsia
from vf.core import and_, eq, ob, product_cases, same
from vf.sym import sym_max

MODS = ["darsia.multi_image_analysis.concentrationanalysis", "darsia.image.image"]
FUNCS = ["darsia.multi_image_analysis.concentrationanalysis:ConcentrationAnalysis.__init__",
         "darsia.multi_image_analysis.concentrationanalysis:ConcentrationAnalysis.__call__",
         "darsia.multi_image_analysis.concentrationanalysis:ConcentrationAnalysis._subtract_background",
         "darsia.multi_image_analysis.concentrationanalysis:ConcentrationAnalysis.find_cleaning_filter",
         "darsia.multi_image_analysis.concentrationanalysis:ConcentrationAnalysis._clean_signal",
         "darsia.multi_image_analysis.concentrationanalysis:ConcentrationAnalysis._reduce_signal",
         "darsia.multi_image_analysis.concentrationanalysis:ConcentrationAnalysis._balance_signal",
         "darsia.multi_image_analysis.concentrationanalysis:ConcentrationAnalysis._restore_signal",
         "darsia.multi_image_analysis.concentrationanalysis:ConcentrationAnalysis._convert_signal"]


def _absdiff(ctx):
    def compare_images(a, b, method="diff", **k):
        ctx.stub_used("skimage.util.compare_images(a, b, method='diff') = |a - b|")
        assert method == "diff"
        from vf.symnp import _map
        return _map(abs, np.asarray(a) - np.asarray(b))
    return compare_images


def _ident(ctx):
    def img_as_float(a, *args, **k):
        ctx.stub_used("skimage.img_as_float on real-valued (symbolic) input: identity")
        return a
    return img_as_float


STUBS = {"skimage.util.compare_images": _absdiff, "skimage.img_as_float": _ident}
DIFFS = ("absolute", "positive", "negative", "plain")


class Stage:
    """A pipeline stage standing for an arbitrary model / restoration / balancing: affine in its input with symbolic
    coefficients (so that any reordering or skipped stage changes the result); records its inputs."""

    def __init__(self, ctx, name, log):
        self.a = ctx.real("a_" + name, sample=(0.5, 2.0))
        self.b = ctx.real("b_" + name, sample=(-0.5, 0.5))
        self.name, self.log = name, log

    def __call__(self, x, *args):
        self.log.append((self.name, x))
        return self.a * x + self.b


class Reduction:
    def __init__(self, ctx, log, channels):
        self.w = ctx.reals("w", channels, sample=(0.1, 1.0))
        self.log = log

    def __call__(self, x):
        self.log.append(("reduction", x))
        return sum(self.w[c] * x[..., c] for c in range(len(self.w)))


def _cases(tier):
    out = []
    present = list(itertools.product((False, True), repeat=3))          # balancing, restoration, model
    for colour in (False, True):
        for diff in DIFFS:
            for nbase in (0, 2):
                for order in (True, False):
                    for pres in present:
                        if tier == "quick" and not (pres in ((True, True, True), (False, True, True), (True, False, False), (False, False, False)) and (nbase == 0 or diff in ("absolute", "plain"))):
                            continue
                        out.append(dict(colour=colour, diff=diff, nbase=nbase, rest_first=order, stages="".join("BTM"[i] if p else "-" for i, p in enumerate(pres))))
    return out


def _clip0(x):
    from vf.symnp import _map
    return _map(lambda e: sym_max(e, 0), x)


def expected_diff(option, probe, base):
    from vf.symnp import _map
    d = probe - base
    if option == "plain":
        return d
    if option == "absolute":
        return _map(abs, d)
    if option == "positive":
        return _clip0(d)
    return _clip0(-d)


@ob("C13.pipeline", cases=_cases, mods=MODS, funcs=FUNCS, stubs=STUBS, samples=(1, 3),
    cite="maps any probe to model(restoration(balancing(cleaning(reduction(difference))))) with the stages applied in that documented "
         "order (restoration and model swapped when so configured) and the difference taken according to the selected option ... The probe "
         "image is left unmodified and the result carries the probe's physical metadata, as a scalar image whenever the signal was reduced "
         "to one channel", note="stages are arbitrary affine maps with symbolic coefficients that record their call order and inputs")
def c13_pipeline(ctx, colour, diff, nbase, rest_first, stages):
    hw = (1, 3) if (nbase == 1 and rest_first) else ((2, 1) if (nbase == 0 and rest_first) else (2, 2))     # single-row / single-column images ride along
    shape = (*hw, 3) if colour else hw
    log = []
    d = ctx.reals("d", 2, pos=True, sample=(0.5, 3.0))
    o = ctx.reals("o", 2, sample=(-2.0, 2.0))
    mk = lambda arr: (darsia.OpticalImage if colour else darsia.ScalarImage)(arr, dimensions=list(d), origin=list(o), name="img")
    base_arr = ctx.array("base", shape, sample=(0.0, 1.0))
    extra = [ctx.array(f"ex{k}", shape, sample=(0.0, 1.0)) for k in range(nbase)]
    probe_arr = ctx.array("probe", shape, sample=(0.0, 1.0))
    red = Reduction(ctx, log, 3) if colour else None
    B = Stage(ctx, "balancing", log) if "B" in stages else None
    T = Stage(ctx, "restoration", log) if "T" in stages else None
    M = Stage(ctx, "model", log) if "M" in stages else None
    ca = darsia.ConcentrationAnalysis(base=[mk(base_arr)] + [mk(e) for e in extra], signal_reduction=red, balancing=B, restoration=T, model=M,
                                      **{"diff option": diff, "restoration -> model": rest_first})
    # cleaning filter = running maximum of the reduced differences of the extra baselines
    R = (lambda x: sum(red.w[c] * x[..., c] for c in range(3))) if colour else (lambda x: x)
    if nbase:
        filt = np.zeros(hw, dtype=object)
        for e in extra:
            r = R(expected_diff(diff, e, base_arr))
            for v in np.ndindex(*hw):
                filt[v] = sym_max(filt[v], r[v])
        ctx.ensure("cleaning filter == running maximum over the extra baselines of reduction(difference)", eq(ca.threshold_cleaning_filter, filt))
    else:
        filt = None
        ctx.ensure("no extra baselines: no cleaning filter", ca.threshold_cleaning_filter is None)
    del log[:]
    probe = mk(probe_arr)
    meta_before = {k: (list(v) if k in ("dimensions", "origin") else v) for k, v in probe.metadata().items()}
    out = ca(probe)
    D = expected_diff(diff, probe_arr, base_arr)
    s = R(D)
    if filt is not None:
        s = _clip0(s - filt)
    if B is not None:
        s = B.a * s + B.b
    first, second = (T, M) if rest_first else (M, T)
    for st in (first, second):
        if st is not None:
            s = st.a * s + st.b
    ctx.ensure("result == model(restoration(balancing(cleaning(reduction(difference))))) (restoration / model swapped when configured)", eq(out.img, s))
    want_order = (["reduction"] if colour else []) + (["balancing"] if B else []) + [st.name for st in (first, second) if st is not None]
    ctx.ensure("stages are called in the documented order, once each", [n for n, _ in log] == want_order)
    ctx.ensure("probe image unmodified", probe.img is probe_arr and same(probe.img, probe_arr))
    m = out.metadata()
    ctx.ensure("result carries the probe's physical metadata",
               and_(eq(list(m["dimensions"]), meta_before["dimensions"]), eq(list(m["origin"]), meta_before["origin"]), m["name"] == meta_before["name"],
                    m["space_dim"] == 2, m["series"] == meta_before["series"]))
    ctx.ensure("scalar image iff the signal was reduced to one channel", isinstance(out, darsia.ScalarImage) and out.img.shape == hw)
    ctx.ensure("base image of the analysis untouched", same(ca.base.img, base_arr))
    # baseline -> zero signal
    ctx.ensure("the baseline itself has zero difference signal", eq(ca._subtract_background(mk(base_arr)), np.zeros(shape)))


@ob("C13.diff", cases=product_cases(colour=(False, True), with_base=(True, False), scale=(1.0, 255.0, -300.0)), mods=MODS, funcs=FUNCS, stubs=STUBS, samples=(2, 5),
    cite="the positive and negative parts sum to the absolute difference and differ by the plain one",
    note="float data of any magnitude: unit range, 0..255 gray values kept as floats, signed physical data (the proof is over all reals; the scale only moves the concrete companions)")
def c13_diff(ctx, colour, with_base, scale=1.0):
    shape = (2, 2, 3) if colour else (2, 2)
    mk = lambda arr: (darsia.OpticalImage if colour else darsia.ScalarImage)(arr, dimensions=[1.0, 1.0])
    rng_ = (0.0, scale) if scale > 0 else (scale, -scale)
    base_arr = ctx.array("base", shape, sample=rng_)
    probe_arr = ctx.array("probe", shape, sample=rng_)
    res = {}
    for opt in DIFFS:
        ca = darsia.ConcentrationAnalysis(base=mk(base_arr) if with_base else None, **{"diff option": opt})
        res[opt] = ca._subtract_background(mk(probe_arr))
        ctx.ensure(f"'{opt}' difference as specified", eq(res[opt], expected_diff(opt, probe_arr, base_arr if with_base else np.zeros(shape))))
    ctx.ensure("positive + negative == absolute", eq(res["positive"] + res["negative"], res["absolute"]))
    ctx.ensure("positive - negative == plain", eq(res["positive"] - res["negative"], res["plain"]))
    ctx.ensure("probe and base arrays untouched", same(probe_arr, probe_arr))


@ob("C13.dtypes", kind="B", cases=product_cases(dtype=("uint8", "uint16", "float32", "float64"), colour=(False, True), diff=DIFFS, extra=(0, 2)), funcs=FUNCS, samples=(1, 2), tol=1e-6,
    cite="any 2-D shape and supported dtype (incl. integer types that must be promoted)", note="bounded: skimage dtype conversion is external")
def c13_dtypes(ctx, dtype, colour, diff, extra=0):
    rng = np.random.default_rng(ctx.rng.randrange(1 << 30))
    shape = (5, 7, 3) if colour else (5, 7)
    dt = np.dtype(dtype)
    gen = (lambda: rng.random(shape).astype(dt)) if dt.kind == "f" else (lambda: rng.integers(0, np.iinfo(dt).max, shape).astype(dt))
    mk = lambda arr: (darsia.OpticalImage if colour else darsia.ScalarImage)(arr, dimensions=[1.0, 2.0])
    base_arr, probe_arr = gen(), gen()
    import skimage
    tofloat = lambda a: skimage.img_as_float(a)
    log = []
    model = lambda x, *a: (log.append("model"), 2.0 * x + 0.25)[1]
    rest = lambda x: (log.append("restoration"), 0.5 * x - 0.125)[1]
    red = (lambda x: (log.append("reduction"), x[..., 0] * 0.5 + x[..., 2] * 0.25)[1]) if colour else None
    # extra baselines (same dtype as the reference baseline: all of them must be promoted alike) define the cleaning threshold
    extra_arrs = [gen() for _ in range(extra)]
    base_arg = mk(base_arr.copy()) if extra == 0 else [mk(base_arr.copy())] + [mk(e.copy()) for e in extra_arrs]
    ca = darsia.ConcentrationAnalysis(base=base_arg, signal_reduction=red, restoration=rest, model=model, **{"diff option": diff})
    log.clear()
    probe = mk(probe_arr.copy())
    out = ca(probe)
    pf, bf = tofloat(probe_arr).astype(float), tofloat(base_arr).astype(float)
    diff_of = lambda dd: {"plain": dd, "absolute": np.abs(dd), "positive": np.clip(dd, 0, None), "negative": np.clip(-dd, 0, None)}[diff]
    reduce_ = lambda D: D[..., 0] * 0.5 + D[..., 2] * 0.25 if colour else D
    s = reduce_(diff_of(pf - bf))
    if extra:
        thr = np.zeros(s.shape[:2])
        for e in extra_arrs:
            thr = np.maximum(thr, reduce_(diff_of(tofloat(e).astype(float) - bf)))
        s = np.clip(s - thr, 0, None)
    want = 2.0 * (0.5 * s - 0.125) + 0.25
    ctx.ensure("result == model(restoration(reduction(difference))) on the promoted (float) images", out.img.shape == want.shape and bool(np.allclose(out.img, want, rtol=1e-5, atol=1e-6)))
    ctx.ensure("probe image unmodified (data and dtype)", probe.img.dtype == dt and bool(np.array_equal(probe.img, probe_arr)))
    ctx.ensure("order of stages", log == (["reduction"] if colour else []) + ["restoration", "model"])
    again = ca(probe)
    ctx.ensure("second call with the same probe gives the same result", bool(np.array_equal(again.img, out.img)))
    ctx.ensure("baseline maps to zero signal", bool(np.allclose(ca._subtract_background(mk(base_arr.copy()).img_as(float) if dt.kind != "f" else mk(base_arr.copy())), 0)))


@ob("C13.two_analyses", cases=product_cases(first_extra=(2, 1), second_extra=(0, 1)), mods=MODS, funcs=FUNCS, stubs=STUBS, samples=(1, 3),
    cite="For any baseline the analysis maps the baseline itself to zero signal, and maps any probe to model(restoration(balancing(cleaning(reduction(difference))))) "
         "(each analysis object with ITS baselines)",
    note="relational: an analysis constructed AFTER another one (with other extra baselines) has the cleaning filter of its own baselines only - none, if it has a single baseline - "
         "and the earlier analysis keeps its own (after seed C13_i: mutable default argument filled in place by the first analysis)")
def c13_two_analyses(ctx, first_extra, second_extra):
    hw = (2, 2)
    mk = lambda arr: darsia.ScalarImage(arr, dimensions=[1.0, 1.0])
    b1 = ctx.array("b1", hw, sample=(0.0, 1.0))
    e1 = [ctx.array(f"e1_{k}", hw, sample=(0.0, 1.0)) for k in range(first_extra)]
    b2 = ctx.array("b2", hw, sample=(0.0, 1.0))
    e2 = [ctx.array(f"e2_{k}", hw, sample=(0.0, 1.0)) for k in range(second_extra)]
    A1 = darsia.ConcentrationAnalysis(base=[mk(b1)] + [mk(e) for e in e1])
    A2 = darsia.ConcentrationAnalysis(base=[mk(b2)] + [mk(e) for e in e2])

    def filt(base, extras):
        if not extras:
            return None
        f = np.zeros(hw, dtype=object)
        for e in extras:
            r = expected_diff("absolute", e, base)
            for v in np.ndindex(*hw):
                f[v] = sym_max(f[v], r[v])
        return f
    f1, f2 = filt(b1, e1), filt(b2, e2)
    if f2 is None:
        ctx.ensure("second analysis (single baseline): no cleaning filter", A2.threshold_cleaning_filter is None)
    else:
        ctx.ensure("second analysis: cleaning filter of ITS extra baselines", eq(A2.threshold_cleaning_filter, f2))
    ctx.ensure("first analysis keeps the cleaning filter of its extra baselines", eq(A1.threshold_cleaning_filter, f1))
    p = ctx.array("p", hw, sample=(0.0, 1.0))
    want = expected_diff("absolute", p, b2)
    if f2 is not None:
        want = _clip0(want - f2)
    ctx.ensure("second analysis maps a probe to cleaning(difference) with its own baselines", eq(A2(mk(p)).img, want))


@ob("C13.dep_skimage", kind="B", samples=(2, 6), funcs=[], tol=1e-7, cite="(validation of assumed dependency contracts)",
    note="skimage.util.compare_images(method='diff') and skimage.img_as_float on float images against the installed scikit-image")
def c13_dep_skimage(ctx):
    from contracts import deps_validation as dv
    dv.dep_skimage(ctx, _absdiff, _ident)
