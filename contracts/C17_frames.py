"""C17 — operations that return new objects do not modify their arguments (frame obligations over a registry of call forms)."""
import copy

import numpy as np

import darsia
from vf import frame
from vf.core import and_, eq, ob, product_cases, same

MODS = ["darsia.image.image", "darsia.image.arithmetics", "darsia.signals.reduction.dimensionreduction", "darsia.utils.standard_images",
        "darsia.signals.models.linearmodel", "darsia.signals.models.clipmodel", "darsia.measure.integration", "darsia.image.coordinatesystem"]
FUNCS = ["darsia.image.image:Image.__add__", "darsia.image.image:Image.__sub__", "darsia.image.image:Image.__mul__", "darsia.image.image:Image.__lt__",
         "darsia.image.image:Image.__gt__", "darsia.image.image:Image.__eq__", "darsia.image.image:Image.__le__", "darsia.image.image:Image.__ge__",
         "darsia.image.image:Image.copy", "darsia.image.image:Image.astype", "darsia.image.image:Image.subregion", "darsia.image.image:Image.time_slice",
         "darsia.image.image:Image.time_interval", "darsia.image.image:Image.__init__", "darsia.image.arithmetics:weight", "darsia.image.arithmetics:stack",
         "darsia.image.arithmetics:superpose", "darsia.signals.reduction.dimensionreduction:reduce_axis",
         "darsia.signals.reduction.dimensionreduction:extrude_along_axis", "darsia.utils.standard_images:zeros_like", "darsia.utils.standard_images:ones_like",
         "darsia.restoration.resize:resize", "darsia.restoration.resize:uniform_refinement", "darsia.utils.box:random_patches", "darsia.measure.emd:EMD.__call__"]


def _img(ctx, name, kind="scalar", shape=(2, 3)):
    full = {"scalar": shape, "vector": (*shape, 3), "series": (*shape, 2), "vector-series": (*shape, 2, 3)}[kind]
    arr = ctx.array(name, full, sample=(0.1, 1.0))
    d = ctx.reals("d" + name, 2, pos=True, sample=(0.5, 3.0))
    o = ctx.reals("o" + name, 2, sample=(-2.0, 2.0))
    dims = list(d)
    kw = dict(space_dim=2, scalar=kind in ("scalar", "series"), series=kind in ("series", "vector-series"), dimensions=dims, origin=list(o), name=name)
    if kw["series"]:
        kw["time"] = [0.0, 1.5]
    return darsia.Image(arr, **kw), arr, dims, d, o


class Snap:
    """identity + content snapshot of an image argument"""

    def __init__(self, img, arr):
        self.img, self.arr, self.tokens = img, arr, list(arr.flat)
        self.meta = {k: (list(v) if isinstance(v, (list, np.ndarray)) else v) for k, v in img.metadata().items()}

    def unchanged(self):
        m = self.img.metadata()
        oks = [self.img.img is self.arr, same(self.arr, np.array(self.tokens, dtype=object).reshape(self.arr.shape) if self.arr.dtype == object else np.array(self.tokens).reshape(self.arr.shape))]
        for k, v in self.meta.items():
            if k in ("dimensions", "origin"):
                oks.append(eq(list(m[k]), v))
            elif k == "time" and isinstance(v, list):
                oks.append(eq(m[k], v))
            else:
                oks.append(m[k] == v)
        return and_(*oks)


FORMS = ("add", "sub", "mul-float", "mul-int", "rmul", "lt", "gt", "eq", "le", "ge", "lt-scalar", "ge-scalar", "copy", "astype", "subregion", "time_slice",
         "time_interval", "weight-scalar", "weight-array", "weight-image", "stack", "reduce_axis", "extrude", "zeros_like", "ones_like", "ctor-dims",
         "clip-image", "linear-model", "integrate", "normalize", "reset_origin")


@ob("C17.frame_tokens", cases=product_cases(form=FORMS), mods=MODS, funcs=FUNCS, samples=(1, 3),
    cite="leave every argument (pixel data, metadata and caller-owned containers such as a dimensions list passed to a constructor) exactly "
         "as it was", note="token arrays: 'the argument's array is the same object holding the same tokens' holds for all contents")
def c17_frame_tokens(ctx, form):
    kind = {"time_slice": "series", "time_interval": "vector-series", "weight-array": "vector", "stack": "scalar"}.get(form, "scalar")
    a, aarr, adims, d, o = _img(ctx, "a", kind)
    b, barr, bdims, _, _ = _img(ctx, "b", kind)
    b.dimensions, b.origin = list(a.dimensions), a.origin.copy()
    sa, sb = Snap(a, aarr), Snap(b, barr)
    s = ctx.real("s", sample=(0.5, 2.0))
    res = None
    if form == "add": res = a + b
    elif form == "sub": res = a - b
    elif form == "mul-float": res = a * s
    elif form == "mul-int": res = a * 3
    elif form == "rmul": res = s * a
    elif form in ("lt", "gt", "eq", "le", "ge"):
        res = {"lt": a < b, "gt": a > b, "eq": a == b, "le": a <= b, "ge": a >= b}[form]
    elif form == "lt-scalar": res = a < s
    elif form == "ge-scalar": res = a >= 1
    elif form == "copy": res = a.copy()
    elif form == "astype": res = a.astype(float) if not ctx.sym else a.copy()
    elif form == "subregion": res = a.subregion((slice(0, 1), slice(1, 3)))
    elif form == "time_slice": res = a.time_slice(1)
    elif form == "time_interval": res = a.time_interval(slice(0, 1))
    elif form == "weight-scalar": res = darsia.weight(a, s)
    elif form == "weight-array":
        w = np.array(ctx.reals("w", 3, sample=(0.5, 2.0)))
        w0 = list(w)
        res = darsia.weight(a, w)
        ctx.ensure("weight array untouched", all(x is y for x, y in zip(w, w0)) if ctx.sym else list(w) == w0)
    elif form == "weight-image": res = darsia.weight(a, b)
    elif form == "stack":
        lst = [a, b]
        b.time, a.time = None, None
        sa, sb = Snap(a, aarr), Snap(b, barr)
        res = darsia.stack(lst)
        ctx.ensure("the list and its images are untouched", lst[0] is a and lst[1] is b and len(lst) == 2 and a.series is False and b.series is False)
    elif form == "reduce_axis": res = darsia.reduce_axis(a, 0, mode="sum")
    elif form == "extrude": res = darsia.extrude_along_axis(a, 2.0, 3)
    elif form == "zeros_like": res = darsia.zeros_like(a, dtype=float)
    elif form == "ones_like": res = darsia.ones_like(a, dtype=float)
    elif form == "ctor-dims":
        mydims = [d[0], d[1]]
        keep = list(mydims)
        res = darsia.Image(aarr, space_dim=2, scalar=True, dimensions=mydims, height=s, width=2 * s)
        ctx.ensure("caller's dimensions list untouched", len(mydims) == 2 and all((x is y) if ctx.sym else (x == y) for x, y in zip(mydims, keep)))
        ctx.ensure("height / width keywords take effect on the image", eq(list(res.dimensions), [s, 2 * s]))
    elif form == "clip-image": res = darsia.ClipModel(**{"min value": 0.3, "max value": 0.6})(a)
    elif form == "linear-model": res = darsia.LinearModel(scaling=s, offset=0.5)(aarr)
    elif form == "integrate":
        g = darsia.Geometry(space_dim=2, num_voxels=(2, 3), dimensions=list(d))
        res = g.integrate(a)
    elif form == "normalize":
        g = darsia.Geometry(space_dim=2, num_voxels=(2, 3), dimensions=list(d))
        res = g.normalize(a, b)
    elif form == "reset_origin":
        c = a.copy()
        res = c.reset_origin(return_image=True)
    ctx.ensure("first argument untouched (same array object, same content, same metadata)", sa.unchanged())
    ctx.ensure("second argument untouched", sb.unchanged())
    ctx.ensure("the dimensions lists handed to the constructors are untouched", and_(eq(adims, list(d)), len(adims) == 2))
    if isinstance(res, darsia.Image) and form != "ctor-dims":
        ctx.ensure("result is a new object that does not hold an argument's array object", res is not a and res is not b and res.img is not aarr and res.img is not barr)


OPS = ("add", "sub", "mul", "lt", "gt", "eq", "le", "ge")


@ob("C17.arith", cases=product_cases(op=OPS, other=("image", "float", "int"), kind=("scalar", "vector-series")), mods=MODS, funcs=FUNCS, samples=(2, 5),
    cite="Image arithmetic itself agrees element-wise with the same arithmetic on the raw arrays for every documented scalar type")
def c17_arith(ctx, op, other, kind):
    import operator
    f = {"add": operator.add, "sub": operator.sub, "mul": operator.mul, "lt": operator.lt, "gt": operator.gt, "eq": operator.eq, "le": operator.le, "ge": operator.ge}[op]
    if (op in ("add", "sub") and other != "image") or (op == "mul" and other == "image"):
        ctx.ensure("combination not documented", True)
        return
    a, aarr, *_ = _img(ctx, "a", kind)
    if other == "image":
        b, barr, *_ = _img(ctx, "b", kind)
        rhs, raw = b, barr
    elif other == "float":
        rhs = raw = ctx.real("s", sample=(0.2, 0.9))
    else:
        rhs = raw = 2 if op == "mul" else 0
    res = f(a, rhs)
    from vf.symnp import vf_cmp
    sym_op = {"lt": "<", "gt": ">", "eq": "==", "le": "<=", "ge": ">="}
    want = vf_cmp(sym_op[op], aarr, raw) if op in sym_op else f(aarr, raw)
    ctx.ensure("result is an image", isinstance(res, darsia.Image))
    if op in sym_op and kind == "vector-series" and False:
        pass
    ctx.ensure(f"(a {op} b).img == a.img {op} b.img element-wise", eq(res.img, want) if res.img.shape == np.shape(want) else False)
    if op == "mul":
        ctx.ensure("scalar * image == image * scalar", eq((rhs * a).img, want))


# ---- bounded: OpenCV based call forms, global RNG state, chains ------------------------------------------------------------------

def _deep(img):
    return (img.img.copy(), copy.deepcopy({k: v for k, v in img.metadata().items()}))


def _same_deep(img, snap):
    arr, meta = snap
    if not (img.img.shape == arr.shape and img.img.dtype == arr.dtype and np.array_equal(img.img, arr)):
        return False
    m = img.metadata()
    for k, v in meta.items():
        try:
            if not np.all(np.asarray(m[k]) == np.asarray(v)):
                return False
        except Exception:
            if m[k] != v:
                return False
    return True


def _registry():
    R = {}
    R["resize-factor"] = lambda a, b: darsia.resize(a, fx=0.5, fy=0.5)
    R["resize-shape"] = lambda a, b: darsia.resize(a, shape=(4, 6))
    R["resize-ref"] = lambda a, b: darsia.resize(a, ref_image=b)
    R["uniform_refinement+1"] = lambda a, b: darsia.uniform_refinement(a, 1)
    R["uniform_refinement-1"] = lambda a, b: darsia.uniform_refinement(a, -1)
    R["equalize_voxel_size"] = lambda a, b: darsia.equalize_voxel_size(a)
    R["superpose"] = lambda a, b: darsia.superpose([a, b])
    R["weight-image-resized"] = lambda a, b: darsia.weight(a, darsia.resize(b, shape=(4, 6)))
    R["emd"] = lambda a, b: darsia.EMD()(a, b)
    R["img_as-float"] = lambda a, b: a.img_as(float)
    R["img_as-uint8"] = lambda a, b: a.img_as(np.uint8)
    R["astype-float32"] = lambda a, b: a.astype(np.float32)
    R["random_patches"] = lambda a, b: darsia.random_patches(a.img > 0.2, 2, 3)
    # many patches on a small mask: the first draw of patch positions contains duplicates
    R["random_patches-many"] = lambda a, b: darsia.random_patches(a.img > 0.2, 2, 20)
    R["random_patches-tiny-mask"] = lambda a, b: darsia.random_patches(a.img[:3, :4] > 0.2, 1, 10)
    R["bounding_box"] = lambda a, b: darsia.bounding_box(np.array([[1, 2], [5, 7]]), padding=1, max_size=(8, 12))
    R["reduce-average"] = lambda a, b: darsia.reduce_axis(a, "x", mode="average")
    R["subregion-coordinates"] = lambda a, b: a.subregion(darsia.make_coordinate([[0.1, 0.2], [0.8, 1.1]]))
    R["add"] = lambda a, b: a + b
    R["lt"] = lambda a, b: a < b
    R["mul"] = lambda a, b: 2.5 * a
    R["weight-scalar"] = lambda a, b: darsia.weight(a, 0.5)
    R["stack"] = lambda a, b: darsia.stack([a, b])
    R["integrate"] = lambda a, b: darsia.Geometry(space_dim=2, num_voxels=a.num_voxels, dimensions=list(a.dimensions)).integrate(a)
    R["copy"] = lambda a, b: a.copy()
    return R


@ob("C17.frame_bounded", kind="B", cases=[dict(form=k) for k in _registry()], funcs=FUNCS, samples=(1, 3),
    cite="a fixed registry of call forms x random images of every kind; snapshots (deep copy of data, metadata and argument containers, RNG state) "
         "compared before and after", note="bounded: OpenCV / skimage based call forms on seeded random 8x12 images; global numpy RNG state included")
def c17_frame_bounded(ctx, form):
    rng = np.random.default_rng(ctx.rng.randrange(1 << 30))
    mk = lambda: darsia.ScalarImage(0.05 + rng.random((8, 12)), dimensions=[1.0, 1.5], name="x")
    a, b = mk(), mk()
    b.img = b.img / b.img.sum() * a.img.sum()          # equal mass (EMD)
    sa, sb = _deep(a), _deep(b)
    np.random.seed(12345)
    np.random.rand(3)
    st = np.random.get_state()
    before = frame.snapshot(["darsia.image.arithmetics", "darsia.restoration.resize", "darsia.utils.box", "darsia.measure.emd"])
    res = _registry()[form](a, b)
    st2 = np.random.get_state()
    ctx.ensure(f"{form}: first argument exactly as it was (data, dtype, metadata)", _same_deep(a, sa))
    ctx.ensure(f"{form}: second argument exactly as it was", _same_deep(b, sb))
    ctx.ensure(f"{form}: global numpy random state unaltered", st[0] == st2[0] and bool(np.array_equal(st[1], st2[1])) and st[2:] == st2[2:])
    ctx.ensure(f"{form}: no module-level state written", frame.diff(before, frame.snapshot(["darsia.image.arithmetics", "darsia.restoration.resize", "darsia.utils.box", "darsia.measure.emd"])) == [])
    if isinstance(res, darsia.Image):
        ctx.ensure(f"{form}: result is a new object", res is not a and res is not b)


@ob("C17.chains", kind="B", cases=[dict(n=k) for k in range(4)], funcs=FUNCS, samples=(2, 6),
    cite="random chains of up to five such calls on shared operands", note="bounded: seeded random chains over the image-valued call forms")
def c17_chains(ctx, n):
    rng = np.random.default_rng(ctx.rng.randrange(1 << 30))
    mk = lambda: darsia.ScalarImage(0.05 + rng.random((8, 12)), dimensions=[1.0, 1.5], name="x")
    a, b = mk(), mk()
    sa, sb = _deep(a), _deep(b)
    R = _registry()
    img_forms = [k for k in R if k in ("add", "mul", "weight-scalar", "copy", "weight-image-resized", "uniform_refinement+1", "uniform_refinement-1", "resize-ref", "superpose")]
    cur = a
    names = []
    for _ in range(int(rng.integers(2, 6))):
        k = img_forms[int(rng.integers(0, len(img_forms)))]
        names.append(k)
        other = b if cur.img.shape == b.img.shape else cur
        try:
            cur = R[k](cur, other)
        except (ValueError, AssertionError, NotImplementedError):
            break                     # incompatible operands for this form: the chain ends (not a frame question)
        ctx.tick()
    ctx.ensure(f"chain {names}: shared operand a exactly as it was", _same_deep(a, sa))
    ctx.ensure(f"chain {names}: shared operand b exactly as it was", _same_deep(b, sb))


def _optical_forms():
    F = {}
    for cs in ("HSV", "BGR", "RGB", "LAB"):
        F[f"to_trichromatic-{cs}"] = lambda a, cs=cs: a.to_trichromatic(cs, return_image=True)
    for key in ("gray", "red", "hue", "value"):
        F[f"to_monochromatic-{key}"] = lambda a, key=key: a.to_monochromatic(key)
    F["astype-uint8"] = lambda a: a.img_as(np.uint8)
    F["copy"] = lambda a: a.copy()
    F["subregion"] = lambda a: a.subregion((slice(1, 5), slice(2, 9)))
    F["resize"] = lambda a: darsia.resize(a, shape=(4, 6), interpolation="inter_area")
    return F


@ob("C17.frame_optical", kind="B", cases=[dict(form=k, dtype=d) for k in _optical_forms() for d in ("float64", "float32", "uint8", "float32-wide", "float64-wide", "uint16")], funcs=FUNCS + ["darsia.image.image:OpticalImage.to_trichromatic", "darsia.image.image:OpticalImage.to_monochromatic"],
    samples=(1, 2), cite="type and colour-space conversions that return an image ... leave every argument (pixel data, metadata ...) exactly as it was",
    note="bounded: OpenCV colour conversions on seeded random optical images of every supported dtype; the snapshot includes the dtype")
def c17_frame_optical(ctx, form, dtype):
    rng = np.random.default_rng(ctx.rng.randrange(1 << 30))
    raw = rng.random((8, 12, 3))
    if dtype.endswith("-wide"):
        # float images are not confined to the unit interval (overshoots after corrections, HDR data)
        raw = (1.6 * raw - 0.3).astype(dtype.split("-")[0])
    elif dtype == "uint16":
        raw = (65535 * raw).astype(np.uint16)
    else:
        raw = raw.astype(dtype) if dtype != "uint8" else (255 * raw).astype(np.uint8)
    import contextlib, io
    with contextlib.redirect_stdout(io.StringIO()):
        a = darsia.OpticalImage(raw.copy(), dimensions=[1.0, 1.5], color_space="RGB", name="o")
        snap = _deep(a)
        try:
            res = _optical_forms()[form](a)
        except (NotImplementedError, ValueError, KeyError, __import__("cv2").error):
            res = None            # conversion not offered for this key / dtype (OpenCV refuses e.g. 16-bit LAB): nothing to compare, the operand must still be intact
    ctx.ensure(f"{form}/{dtype}: operand exactly as it was (data, dtype, metadata incl. colour space)", _same_deep(a, snap) and a.img.dtype == raw.dtype and a.color_space == "RGB")
    if isinstance(res, darsia.Image):
        ctx.ensure(f"{form}/{dtype}: result is a new object", res is not a)


LAYOUTS = ([0, 0], [0, 0, 0], [2, 0], [0, 2], [2, 3], [3, 0, 0], [2, 2, 0])


@ob("C17.frame_stack", kind="B", cases=[dict(layout="-".join(map(str, l)), times=t, payload=p) for l in LAYOUTS for t in ("dates", "none", "times-descending") for p in ("scalar", "optical")], funcs=FUNCS, samples=(1, 1),
    cite="stacking ... leave every argument (pixel data, metadata and caller-owned containers ...) exactly as it was",
    note="bounded: every layout of single-time images (0) and series (k = number of time steps) in the list, with and without dates; deep snapshots incl. date / time lists")
def c17_frame_stack(ctx, layout, times, payload):
    from datetime import datetime, timedelta
    rng = np.random.default_rng(ctx.rng.randrange(1 << 30))
    t0 = datetime(2023, 1, 1)
    imgs, k = [], 0
    for nt in [int(x) for x in layout.split("-")]:
        shape = (4, 5) + ((nt,) if nt else ()) + ((3,) if payload == "optical" else ())
        kw = dict(dimensions=[1.0, 1.25], series=bool(nt))
        if times == "dates":
            kw["date"] = [t0 + timedelta(hours=k + j) for j in range(nt)] if nt else t0 + timedelta(hours=k)
            kw["reference_date"] = t0
        elif times == "times-descending":
            # relative times that DEcrease along the list: the order of the caller's list is the caller's business
            kw["time"] = [100.0 - (k + j) for j in range(nt)] if nt else 100.0 - k
        k += max(nt, 1)
        cls = darsia.OpticalImage if payload == "optical" else darsia.ScalarImage
        imgs.append(cls(rng.random(shape), **({"color_space": "RGB"} if payload == "optical" else {}), **kw))
    snaps = [(_deep(im), copy.deepcopy(im.date), copy.deepcopy(im.time), im.time_num, im.series) for im in imgs]
    lst = list(imgs)
    out = darsia.stack(lst)
    ctx.ensure("the list itself is untouched", len(lst) == len(imgs) and all(x is y for x, y in zip(lst, imgs)))
    for n, (im, (snap, date, time, tn, ser)) in enumerate(zip(imgs, snaps)):
        ctx.ensure(f"image {n}: pixel data and metadata exactly as they were", _same_deep(im, snap))
        ctx.ensure(f"image {n}: date / time lists and series bookkeeping exactly as they were", im.date == date and im.time == time and im.time_num == tn and im.series == ser)
    ctx.ensure("result is a new series with all time steps", out is not imgs[0] and out.series and out.time_num == sum(max(int(x), 1) for x in layout.split("-")))


# ---- caller-owned containers other than the images (roi arrays, lists, option dictionaries, parameter vectors) --------------------

def _snap_obj(o):
    return copy.deepcopy(o)


def _eq_obj(o, s):
    if isinstance(s, np.ndarray):
        return isinstance(o, np.ndarray) and type(o) is type(s) and o.dtype == s.dtype and o.shape == s.shape and bool(np.array_equal(o, s))
    if isinstance(s, (list, tuple)):
        return type(o) is type(s) and len(o) == len(s) and all(_eq_obj(x, y) for x, y in zip(o, s))
    if isinstance(s, dict):
        return isinstance(o, dict) and list(o.keys()) == list(s.keys()) and all(_eq_obj(o[k], s[k]) for k in s)
    if isinstance(s, darsia.Image):
        return isinstance(o, darsia.Image) and _same_deep(o, _deep(s))
    if callable(s) and not hasattr(s, "__dict__"):
        return True
    if hasattr(s, "__dict__") and not isinstance(s, type) and type(s).__eq__ is object.__eq__:
        return type(o) is type(s) and _eq_obj(vars(o), vars(s))
    try:
        return bool(o == s)
    except Exception:
        return o is s


from datetime import datetime, timedelta
T0C = datetime(2024, 3, 1, 12, 0, 0)


def _arg_forms():
    """name -> (make_args(rng, a, b) -> list of caller-owned objects, call(a, b, *args))"""
    F = {}
    for where, box in (("inside", [[1, 2], [5, 9]]), ("touching", [[0, 0], [8, 12]]), ("outside", [[-2, 3], [20, 30]]), ("outside-low", [[-3, -1], [4, 5]])):
        F[f"subregion-voxelarray-{where}"] = (lambda rng, a, b, box=box: [darsia.make_voxel(np.array(box))], lambda a, b, roi: a.subregion(roi))
    for where, box in (("inside", [[0.1, 0.2], [0.8, 1.1]]), ("outside", [[-0.5, 0.2], [3.0, 7.0]])):
        F[f"subregion-coordinatearray-{where}"] = (lambda rng, a, b, box=box: [darsia.make_coordinate(np.array(box))], lambda a, b, roi: a.subregion(roi))
    F["subregion-slices"] = (lambda rng, a, b: [(slice(1, 5), slice(2, 20))], lambda a, b, roi: a.subregion(roi))
    F["stack-list"] = (lambda rng, a, b: [[a, b]], lambda a, b, lst: darsia.stack(lst))
    F["superpose-list"] = (lambda rng, a, b: [[a, b]], lambda a, b, lst: darsia.superpose(lst))
    F["bounding_box"] = (lambda rng, a, b: [np.array([[1, 2], [5, 7]]), (8, 12)], lambda a, b, pts, mx: darsia.bounding_box(pts, padding=1, max_size=mx))
    F["random_patches"] = (lambda rng, a, b: [a.img > 0.2], lambda a, b, mask: darsia.random_patches(mask, 2, 3))
    F["ctor-containers"] = (lambda rng, a, b: [a.img.copy(), [1.0, 1.5], [0.25, 2.0]],
                            lambda a, b, arr, dims, org: darsia.Image(arr, space_dim=2, scalar=True, dimensions=dims, origin=org))
    F["ctor-series-times"] = (lambda rng, a, b: [np.stack([a.img, b.img], axis=2), [1.0, 1.5], [0.5, 2.5]],
                              lambda a, b, arr, dims, times: darsia.Image(arr, space_dim=2, scalar=True, series=True, dimensions=dims, time=times))
    F["ctor-series-dates-times"] = (lambda rng, a, b: [np.stack([a.img, b.img], axis=2), [1.0, 1.5], [T0C, T0C + timedelta(hours=1)], [0.0, 10.0]],
                                    lambda a, b, arr, dims, dates, times: darsia.Image(arr, space_dim=2, scalar=True, series=True, dimensions=dims, date=dates, time=times))
    F["weight-array-vector"] = (lambda rng, a, b: [darsia.Image(np.stack([a.img, b.img], axis=2), space_dim=2, scalar=False, dimensions=[1.0, 1.5]), np.array([0.5, 2.0])],
                                lambda a, b, v, w: darsia.weight(v, w))
    F["geometry-ctor"] = (lambda rng, a, b: [[8, 12], [1.0, 1.5]], lambda a, b, nv, dims: darsia.Geometry(space_dim=2, num_voxels=nv, dimensions=dims).integrate(a))
    F["extruded-geometry-depth-array"] = (lambda rng, a, b: [0.5 + rng.random((8, 12))],
                                          lambda a, b, depth: darsia.ExtrudedGeometry(expansion=depth, space_dim=2, num_voxels=(8, 12), dimensions=[1.0, 1.5]).integrate(a))
    F["porous-geometry-porosity-image"] = (lambda rng, a, b: [b.copy()],
                                           lambda a, b, por: darsia.PorousGeometry(porosity=por, space_dim=2, num_voxels=(8, 12), dimensions=[1.0, 1.5]).integrate(a))
    F["linear-model-params"] = (lambda rng, a, b: [np.array([2.0, 0.5]), a.img.copy()],
                                lambda a, b, prm, sig: (lambda m: (m.update_model_parameters(prm), m(sig))[1])(darsia.LinearModel()))
    F["combined-model-list"] = (lambda rng, a, b: [[darsia.LinearModel(scaling=2.0), darsia.ClipModel(**{"min value": 0.0, "max value": 1.0})], a.img.copy()],
                                lambda a, b, models, sig: darsia.CombinedModel(models)(sig))
    F["wasserstein-options"] = (lambda rng, a, b: [{"num_iter": 3, "tol_residual": 1e-6, "verbose": False, "linear_solver_options": {"rtol": 1e-8}, "formulation": "pressure"}],
                                lambda a, b, opt: darsia.wasserstein_distance(a, b, method="newton", options=opt))
    F["wasserstein-bregman-options"] = (lambda rng, a, b: [{"num_iter": 3, "verbose": False, "L": 1.0, "bregman_update": lambda it: it % 2 == 0}],
                                        lambda a, b, opt: darsia.wasserstein_distance(a, b, method="bregman", options=opt))
    F["resize-shape-list"] = (lambda rng, a, b: [[4, 6]], lambda a, b, shp: darsia.resize(a, shape=tuple(shp)))
    F["time_interval-slice"] = (lambda rng, a, b: [darsia.stack([a, b]), slice(0, 1)], lambda a, b, ser, sl: ser.time_interval(sl))
    return F


@ob("C17.frame_args", kind="B", cases=[dict(form=k) for k in _arg_forms()], funcs=FUNCS, samples=(1, 3),
    cite="leave every argument (pixel data, metadata and caller-owned containers such as a dimensions list passed to a constructor) exactly as it was",
    note="bounded: caller-owned containers other than the images themselves (roi point arrays inside / touching / outside the image, lists, option dictionaries, parameter vectors)")
def c17_frame_args(ctx, form):
    import contextlib, io, warnings
    rng = np.random.default_rng(ctx.rng.randrange(1 << 30))
    mk = lambda: darsia.ScalarImage(0.05 + rng.random((8, 12)), dimensions=[1.0, 1.5], name="x")
    a, b = mk(), mk()
    b.img = b.img / b.img.sum() * a.img.sum()
    make, call = _arg_forms()[form]
    args = make(rng, a, b)
    sa, sb = _deep(a), _deep(b)
    snaps = [_snap_obj(x) for x in args]
    ids = [[id(e) for e in x] if isinstance(x, list) else None for x in args]
    with contextlib.redirect_stdout(io.StringIO()), warnings.catch_warnings():
        warnings.simplefilter("ignore")
        call(a, b, *args)
    for k, (x, sn) in enumerate(zip(args, snaps)):
        ctx.ensure(f"{form}: argument #{k} ({type(x).__name__}) exactly as it was", _eq_obj(x, sn))
        if ids[k] is not None:
            ctx.ensure(f"{form}: list argument #{k} still holds the same objects", [id(e) for e in x] == ids[k])
    ctx.ensure(f"{form}: image a exactly as it was", _same_deep(a, sa))
    ctx.ensure(f"{form}: image b exactly as it was", _same_deep(b, sb))


SERIES_FORMS = ("resize-factor", "resize-shape", "resize-ref", "uniform_refinement+1", "uniform_refinement-1", "equalize_voxel_size", "superpose", "img_as-float", "astype-float32",
                "reduce-average", "subregion-coordinates", "add", "lt", "mul", "weight-scalar", "integrate", "copy", "sub", "zeros_like", "time_slice", "time_interval", "subregion-slices",
                "astype-image")


@ob("C17.frame_series_clock", kind="B", cases=[dict(form=k) for k in SERIES_FORMS], funcs=FUNCS, samples=(1, 2),
    cite="leave every argument (pixel data, metadata ...) exactly as it was",
    note="bounded: time series that carry absolute dates AND an independent list of relative times (an experiment clock that is not date - reference date); the metadata "
         "containers (date / time lists) are shared with results through metadata() unless copied")
def c17_frame_series_clock(ctx, form):
    import contextlib, io, warnings
    rng = np.random.default_rng(ctx.rng.randrange(1 << 30))
    dates = lambda: [T0C + timedelta(hours=k) for k in range(3)]
    mk = lambda: darsia.ScalarImage(0.05 + rng.random((8, 12, 3)), dimensions=[1.0, 1.5], series=True, date=dates(), time=[0.0, 10.0, 25.0], name="x")
    a, b = mk(), mk()
    a.time, b.time = [0.0, 10.0, 25.0], [0.0, 10.0, 25.0]      # the state the constructor produces for such arguments, set directly (however it was reached)
    R = dict(_registry())
    R["sub"] = lambda a, b: a - b
    R["zeros_like"] = lambda a, b: darsia.zeros_like(a)
    R["time_slice"] = lambda a, b: a.time_slice(1)
    R["time_interval"] = lambda a, b: a.time_interval(slice(0, 2))
    R["subregion-slices"] = lambda a, b: a.subregion((slice(1, 5), slice(2, 9)))
    R["astype-image"] = lambda a, b: a.astype(darsia.Image)
    sa, sb = _deep(a), _deep(b)
    ta, da = list(a.time), list(a.date)
    with contextlib.redirect_stdout(io.StringIO()), warnings.catch_warnings():
        warnings.simplefilter("ignore")
        res = R[form](a, b)
    ctx.ensure(f"{form}: the series handed in is exactly as it was (data, dates, relative times)", _same_deep(a, sa) and a.time == ta and a.date == da)
    ctx.ensure(f"{form}: the second series exactly as it was", _same_deep(b, sb))


@ob("C17.frame_nonfinite", kind="B", cases=[dict(form=k) for k in ("weight-image", "add", "mul", "lt", "resize-shape", "uniform_refinement-1", "subregion-slices", "integrate", "copy", "img_as-float")],
    funcs=FUNCS, samples=(1, 2),
    cite="leave every argument (pixel data, metadata ...) exactly as it was",
    note="bounded: arguments that contain NaN and +-inf pixels (undefined / masked data) - an operation may propagate them into its RESULT but may not 'repair' them in the argument; "
         "weights given as an Image of the SAME shape as the image (no resized copy in between) included (after seed C17_l)")
def c17_frame_nonfinite(ctx, form):
    import contextlib, io, warnings
    rng = np.random.default_rng(ctx.rng.randrange(1 << 30))

    def mk():
        arr = 0.05 + rng.random((6, 8))
        idx = rng.choice(arr.size, 5, replace=False)
        arr.flat[idx[:3]] = np.nan
        arr.flat[idx[3]] = np.inf
        arr.flat[idx[4]] = -np.inf
        return darsia.ScalarImage(arr, dimensions=[1.0, 1.5], name="x")
    a, b = mk(), mk()
    R = {"weight-image": lambda a, b: darsia.weight(a, b), "add": lambda a, b: a + b, "mul": lambda a, b: 2.0 * a, "lt": lambda a, b: a < b,
         "resize-shape": lambda a, b: darsia.resize(a, shape=(3, 4)), "uniform_refinement-1": lambda a, b: darsia.uniform_refinement(a, -1),
         "subregion-slices": lambda a, b: a.subregion((slice(1, 5), slice(2, 7))), "integrate": lambda a, b: darsia.Geometry(space_dim=2, num_voxels=a.num_voxels, dimensions=list(a.dimensions)).integrate(a),
         "copy": lambda a, b: a.copy(), "img_as-float": lambda a, b: a.img_as(float)}
    sa, sb, ma, mb = a.img.copy(), b.img.copy(), copy.deepcopy(dict(a.metadata())), copy.deepcopy(dict(b.metadata()))
    barr = b.img
    with contextlib.redirect_stdout(io.StringIO()), warnings.catch_warnings(), np.errstate(all="ignore"):
        warnings.simplefilter("ignore")
        R[form](a, b)
    same = lambda x, y: x.shape == y.shape and x.dtype == y.dtype and bool(np.array_equal(x, y, equal_nan=True))
    meta_same = lambda m1, m2: set(m1) == set(m2) and all(bool(np.all(np.asarray(m1[k]) == np.asarray(m2[k]))) if k in ("dimensions", "origin") else m1[k] == m2[k] for k in m1)
    ctx.ensure(f"{form}: first argument exactly as it was, undefined pixels included", same(a.img, sa) and meta_same(dict(a.metadata()), ma))
    ctx.ensure(f"{form}: second argument exactly as it was, undefined pixels included", same(b.img, sb) and b.img is barr and meta_same(dict(b.metadata()), mb))
