"""C01 — voxel <-> physical coordinate maps (CoordinateSystem, Image metadata, typed points).

Spec table (matrix axis m of an image with matrix indexing -> Cartesian axis, sign), the orientation the
coordinate system documents through `interpret_indexing(<cartesian axis>, "ij"/"ijk")`:
   1-D: i -> +x          2-D: i -> -y, j -> +x          3-D: i -> -z, j -> +x, k -> -y
It is written out here independently of the code so that a change of a table entry fails an obligation.
"""
import numpy as np

import darsia
from vf.core import and_, eq, floor_, le, lt, ob, product_cases

MODS = ["darsia.image.coordinatesystem", "darsia.image.indexing", "darsia.utils.point", "darsia.image.image"]
FUNCS = ["darsia.image.coordinatesystem:CoordinateSystem.__init__", "darsia.image.coordinatesystem:CoordinateSystem.coordinate",
         "darsia.image.coordinatesystem:CoordinateSystem.voxel", "darsia.image.coordinatesystem:CoordinateSystem.coordinate_vector",
         "darsia.image.coordinatesystem:CoordinateSystem.length", "darsia.image.coordinatesystem:CoordinateSystem.num_voxels",
         "darsia.image.indexing:interpret_indexing", "darsia.image.image:Image.__init__", "darsia.image.image:Image.voxel_size",
         "darsia.image.image:Image.opposite_corner", "darsia.image.image:Image.num_voxels",
         "darsia.utils.point:Voxel.__new__", "darsia.utils.point:VoxelCenter.__new__", "darsia.utils.point:make_voxel",
         "darsia.utils.point:make_coordinate", "darsia.utils.point:make_voxel_center", "darsia.utils.point:to_coordinate",
         "darsia.utils.point:to_voxel", "darsia.utils.point:to_voxel_center", "darsia.utils.point:to"]

# matrix axis -> (cartesian axis, sign)
SPEC = {1: [(0, 1)], 2: [(1, -1), (0, 1)], 3: [(2, -1), (0, 1), (1, -1)]}
PAYLOADS = ["scalar", "vector", "series", "vector-series"]


def build_image(ctx, dim, payload="scalar", user_origin=True, tag=""):
    """Image with symbolic shape (all extents >= 1), dimensions > 0 and origin; data irrelevant (ShapeOnly)."""
    n = ctx.ints(f"n{tag}", dim, lo=1, sample=(1, 6))
    d = ctx.reals(f"d{tag}", dim, pos=True, sample=(0.01, 50.0))
    shape = list(n)
    kw = dict(space_dim=dim, dimensions=list(d))
    kw["scalar"] = payload in ("scalar", "series")
    if payload in ("series", "vector-series"):
        shape.append(2)       # number of time steps: concrete (the constructor builds Python lists of that length)
        kw["series"] = True
        # relative times: concrete list is needed by the constructor only for its length; give times 0..nt-1
        kw["time"] = None
    if payload in ("vector", "vector-series"):
        shape.append(3)
    o = None
    if user_origin:
        o = ctx.reals(f"o{tag}", dim, sample=(-1000.0, 1000.0))
        kw["origin"] = list(o)
    img = darsia.Image(ctx.shape_array(shape), **kw)
    return img, n, d, o


def expected_origin(dim, d, o):
    """default origin: the minimum corner of the image is 0 in every Cartesian direction."""
    if o is not None:
        return list(o)
    out = [0] * dim
    for m, (ax, sg) in enumerate(SPEC[dim]):
        if sg < 0:
            out[ax] = d[m]
    return out


def spec_coordinate(dim, n, d, org, v):
    """Cartesian coordinate of (possibly fractional) voxel coordinate v (list per matrix axis)."""
    c = [None] * dim
    for m, (ax, sg) in enumerate(SPEC[dim]):
        c[ax] = org[ax] + sg * v[m] * (d[m] / n[m])
    return c


CASES = product_cases(dim=(1, 2, 3), payload=PAYLOADS, origin=("user", "default"))
CASES_Q = [c for c in CASES if c["payload"] in ("scalar",) or (c["dim"] == 2)]


@ob("C01.affine", cases=lambda tier: CASES, mods=MODS, funcs=FUNCS,
    cite="voxel index zero maps to the image origin, the opposite corner is displaced from it by exactly the physical "
         "dimensions, and one voxel step along a matrix axis moves the coordinate by exactly one voxel size along the "
         "corresponding Cartesian axis with the documented orientation")
def c01_affine(ctx, dim, payload, origin):
    img, n, d, o = build_image(ctx, dim, payload, origin == "user")
    cs = img.coordinatesystem
    org = expected_origin(dim, d, o)
    # origin
    ctx.ensure("image.origin == declared/default origin", eq(list(img.origin), org))
    ctx.ensure("coordinate(0) == origin", eq(list(cs.coordinate([0] * dim)), org))
    # voxel size per matrix axis, and per Cartesian axis in the coordinate system
    ctx.ensure("voxel_size[m] == dimensions[m]/shape[m]", eq(list(img.voxel_size), [d[m] / n[m] for m in range(dim)]))
    for m, (ax, sg) in enumerate(SPEC[dim]):
        ctx.ensure(f"cs.voxel_size[{'xyz'[ax]}] is the voxel size of matrix axis {m}", eq(cs.voxel_size["xyz"[ax]], d[m] / n[m]))
    # opposite corner
    opp = img.opposite_corner
    want = list(org)
    for m, (ax, sg) in enumerate(SPEC[dim]):
        want[ax] = org[ax] + sg * d[m]
    ctx.ensure("opposite_corner - origin == signed dimensions", eq(list(opp), want))
    if origin == "default":
        ctx.ensure("default origin: minimum corner is 0", eq(list(cs.min_coordinate), [0] * dim))
        ctx.ensure("default origin: maximum corner is the dimensions",
                   eq(list(cs.max_coordinate), [d[[a for a, _ in SPEC[dim]].index(ax)] for ax in range(dim)]))
    # one voxel step along each matrix axis, from an arbitrary integer voxel (inside or outside the image)
    v = ctx.ints("v", dim, sample=(-3, 8))
    c0 = cs.coordinate(list(v))
    ctx.ensure("coordinate(v) == spec", eq(list(c0), spec_coordinate(dim, n, d, org, v)))
    for m, (ax, sg) in enumerate(SPEC[dim]):
        v1 = list(v)
        v1[m] = v1[m] + 1
        c1 = cs.coordinate(v1)
        step = [0] * dim
        step[ax] = sg * (d[m] / n[m])
        ctx.ensure(f"step along matrix axis {m}", eq([c1[a] - c0[a] for a in range(dim)], step))
        # coordinate_vector / length agree
        e = [0] * dim
        e[m] = 1
        cv = cs.coordinate_vector(np.array(e))
        ctx.ensure(f"coordinate_vector(e_{m})", eq(list(cv), step))
        ctx.ensure(f"length(1, {'xyz'[ax]})", eq(cs.length(1, "xyz"[ax]), d[m] / n[m]))


@ob("C01.inside", cases=lambda tier: CASES, mods=MODS, funcs=FUNCS,
    cite="Every physical point strictly inside a voxel converts to that voxel's index, so a voxel centre converted to "
         "a coordinate and back is the same voxel ... points outside the image")
def c01_inside(ctx, dim, payload, origin):
    img, n, d, o = build_image(ctx, dim, payload, origin == "user")
    cs = img.coordinatesystem
    v = ctx.ints("v", dim, sample=(-3, 8))
    th = ctx.reals("th", dim, sample=(0.0, 1.0))
    for t in th:
        ctx.assume(and_(t > 0, t < 1))
    pt = np.array([v[m] + th[m] for m in range(dim)])
    c = cs.coordinate(pt)
    back = cs.voxel(c)
    ctx.ensure("voxel(coordinate(v + theta)) == v", eq(list(back), list(v)))
    # centre
    cc = cs.coordinate(np.array([v[m] + 0.5 for m in range(dim)]))
    ctx.ensure("voxel(coordinate(v + 1/2)) == v", eq(list(cs.voxel(cc)), list(v)))
    # instances of the first clause that random sampling never hits: points close to (but a safe 1e-6 / 1e-3 voxel sizes away from) a voxel
    # face, and far-away voxels (a halo index of +-1e5: rounding error there is ~1e-11 voxel sizes)
    from fractions import Fraction
    for eps in (Fraction(1, 10**6), Fraction(1, 10**3)):
        for side in (eps, 1 - eps):
            q = cs.coordinate(np.array([v[m] + (side if ctx.sym else float(side)) for m in range(dim)]))
            ctx.ensure(f"voxel(coordinate(v + {float(side)})) == v", eq(list(cs.voxel(q)), list(v)))
    far = [v[m] + (100000 if m % 2 == 0 else -100000) for m in range(dim)]
    for off in (0.5, 0.99, 0.01):
        q = cs.coordinate(np.array([far[m] + (Fraction(off).limit_denominator(100) if ctx.sym else off) for m in range(dim)]))
        ctx.ensure(f"far voxel: voxel(coordinate(v +- 1e5 + {off})) == v +- 1e5", eq(list(cs.voxel(q)), list(far)))
    # num_voxels: number of touched voxels of a length
    ln = ctx.real("len", lo=0, sample=(0.0, 30.0))
    for m, (ax, sg) in enumerate(SPEC[dim]):
        k = cs.num_voxels(ln, "xyz"[ax])
        h = d[m] / n[m]
        ctx.ensure(f"num_voxels(len, {'xyz'[ax]}) == ceil(len/h)", and_(lt((k - 1) * h, ln), le(ln, k * h)))


def _rows(ctx, name, nrow, dim, kind):
    if kind == "int":
        return np.array([[ctx.int(f"{name}{r}_{m}", sample=(-3, 8)) for m in range(dim)] for r in range(nrow)])
    return np.array([[ctx.real(f"{name}{r}_{m}", sample=(-20.0, 20.0)) for m in range(dim)] for r in range(nrow)])


@ob("C01.batch", cases=lambda tier: product_cases(dim=(1, 2, 3), nrow=(1, 2, 3)), mods=MODS, funcs=FUNCS,
    cite="for single points, batches, points outside the image")
def c01_batch(ctx, dim, nrow):
    img, n, d, o = build_image(ctx, dim, "scalar", True)
    cs = img.coordinatesystem
    V = _rows(ctx, "v", nrow, dim, "int")
    C = cs.coordinate(V)
    ctx.ensure("batch coordinate: array class and shape", isinstance(C, darsia.CoordinateArray) and C.shape == (nrow, dim))
    X = _rows(ctx, "x", nrow, dim, "real")
    P = cs.voxel(X)
    ctx.ensure("batch voxel: array class and shape", isinstance(P, darsia.VoxelArray) and P.shape == (nrow, dim))
    for r in range(nrow):
        c1 = cs.coordinate(V[r])
        ctx.ensure(f"row {r}: single-point class", isinstance(c1, darsia.Coordinate) and not isinstance(c1, darsia.CoordinateArray) and c1.shape == (dim,))
        ctx.ensure(f"row {r}: batch coordinate == single", eq(list(np.asarray(C)[r]), list(c1)))
        ctx.ensure(f"row {r}: list call form", eq(list(cs.coordinate(list(V[r]))), list(c1)))
        ctx.ensure(f"row {r}: tuple call form", eq(list(cs.coordinate(tuple(V[r]))), list(c1)))
        p1 = cs.voxel(X[r])
        ctx.ensure(f"row {r}: single voxel class", isinstance(p1, darsia.Voxel) and not isinstance(p1, darsia.VoxelArray) and p1.shape == (dim,))
        ctx.ensure(f"row {r}: batch voxel == single", eq(list(np.asarray(P)[r]), list(p1)))
        ctx.ensure(f"row {r}: voxel list call form", eq(list(cs.voxel(list(X[r]))), list(p1)))
        # spec of voxel: floor of the inverse affine map
        org = list(o)
        for m, (ax, sg) in enumerate(SPEC[dim]):
            ctx.ensure(f"row {r}: voxel[{m}] == floor(sign*(x-origin)/h)",
                       eq(p1[m], floor_(sg * (X[r][ax] - org[ax]) / (d[m] / n[m]))))


@ob("C01.typed", cases=lambda tier: product_cases(dim=(1, 2, 3), form=("single", "array")), mods=MODS, funcs=FUNCS,
    cite="through the typed coordinate / voxel / voxel-centre point objects alike")
def c01_typed(ctx, dim, form):
    img, n, d, o = build_image(ctx, dim, "scalar", True)
    cs = img.coordinatesystem
    nrow = 1 if form == "single" else 2
    V = _rows(ctx, "v", nrow, dim, "int")
    X = _rows(ctx, "x", nrow, dim, "real")
    if form == "single":
        V, X = V[0], X[0]
    vox = darsia.make_voxel(V)
    ctr = darsia.make_voxel_center(V)
    crd = darsia.make_coordinate(X)
    kinds = ((darsia.Voxel, darsia.VoxelCenter, darsia.Coordinate) if form == "single"
             else (darsia.VoxelArray, darsia.VoxelCenterArray, darsia.CoordinateArray))
    ctx.ensure("constructors return the documented classes", isinstance(vox, kinds[0]) and isinstance(ctr, kinds[1]) and isinstance(crd, kinds[2]))
    ctx.ensure("make_voxel keeps indices", eq(np.asarray(vox), V))
    ctx.ensure("make_voxel_center is index + 1/2", eq(np.asarray(ctr), V + 0.5))
    # voxel -> *
    ctx.ensure("Voxel.to_coordinate == coordinate(v)", eq(np.asarray(vox.to_coordinate(cs)), np.asarray(cs.coordinate(V))))
    ctx.ensure("Voxel.to_voxel == v", eq(np.asarray(vox.to_voxel(cs)), V))
    ctx.ensure("Voxel.to_voxel_center == v + 1/2", eq(np.asarray(vox.to_voxel_center(cs)), V + 0.5))
    # voxel centre -> *   (all integers, negative included)
    ctx.ensure("VoxelCenter.to_coordinate == coordinate(v + 1/2)", eq(np.asarray(ctr.to_coordinate(cs)), np.asarray(cs.coordinate(V + 0.5))))
    ctx.ensure("VoxelCenter.to_voxel == v", eq(np.asarray(ctr.to_voxel(cs)), V))
    ctx.ensure("VoxelCenter.to_voxel_center == v + 1/2", eq(np.asarray(ctr.to_voxel_center(cs)), V + 0.5))
    ctx.ensure("centre -> coordinate -> voxel == v", eq(np.asarray(ctr.to_coordinate(cs).to_voxel(cs)), V))
    ctx.ensure("centre -> coordinate -> centre == v + 1/2", eq(np.asarray(ctr.to_coordinate(cs).to_voxel_center(cs)), V + 0.5))
    # coordinate -> *
    ctx.ensure("Coordinate.to_coordinate == x", eq(np.asarray(crd.to_coordinate(cs)), X))
    ctx.ensure("Coordinate.to_voxel == voxel(x)", eq(np.asarray(crd.to_voxel(cs)), np.asarray(cs.voxel(X))))
    ctx.ensure("Coordinate.to_voxel_center == voxel(x) + 1/2", eq(np.asarray(crd.to_voxel_center(cs)), np.asarray(cs.voxel(X)) + 0.5))
    # generic .to(cls)
    ctx.ensure("to(Coordinate)", eq(np.asarray(vox.to(darsia.Coordinate, cs)), np.asarray(cs.coordinate(V))))
    ctx.ensure("to(Voxel)", eq(np.asarray(crd.to(darsia.Voxel, cs)), np.asarray(cs.voxel(X))))
    ctx.ensure("to(VoxelCenter)", eq(np.asarray(ctr.to(darsia.VoxelCenter, cs)), V + 0.5))
    ctx.ensure("result classes", isinstance(vox.to_coordinate(cs), kinds[2]) and isinstance(crd.to_voxel(cs), kinds[0])
               and isinstance(crd.to_voxel_center(cs), kinds[1]) and isinstance(ctr.to_voxel(cs), kinds[0]))


@ob("C01.history", cases=product_cases(dim=(1, 2, 3), change=("origin-attr", "update_metadata", "reset_origin", "dimensions", "array-replaced")), mods=MODS, funcs=FUNCS + ["darsia.image.image:Image.coordinatesystem", "darsia.image.image:Image.reset_origin", "darsia.image.image:Image.update_metadata"],
    cite="For every image ... voxel index zero maps to the image origin, the opposite corner is displaced from it by exactly the physical dimensions (whatever was asked of the image before)",
    note="the coordinate system handed out by an image is a function of its CURRENT metadata: accessed, metadata changed in place, accessed again")
def c01_history(ctx, dim, change):
    img, n, d, o = build_image(ctx, dim, "scalar", True)
    cs_old = img.coordinatesystem                      # earlier use
    img.opposite_corner
    o2 = ctx.reals("p", dim, sample=(-1000.0, 1000.0))
    d2 = ctx.reals("e", dim, pos=True, sample=(0.01, 50.0))
    dims = list(d)
    if change == "origin-attr":
        img.origin = darsia.Coordinate(np.array(list(o2)))
        org = list(o2)
    elif change == "update_metadata":
        img.update_metadata({"origin": darsia.Coordinate(np.array(list(o2)))})
        org = list(o2)
    elif change == "reset_origin":
        img.reset_origin()
        org = expected_origin(dim, d, None)
    elif change == "array-replaced":
        # the pixel array is replaced in place by one of another shape (what a shape-changing correction applied with overwrite does): the voxel
        # counts every derived quantity uses are those of the CURRENT array
        n = ctx.ints("m", dim, lo=1, sample=(1, 6))
        img.img = ctx.shape_array(list(n))
        org = list(o)
    else:
        img.update_metadata(dimensions=list(d2))
        dims, org = list(d2), list(o)
    cs = img.coordinatesystem
    ctx.ensure("coordinate(0) == the image's current origin", and_(eq(list(cs.coordinate([0] * dim)), org), eq(list(img.origin), org)))
    want = list(org)
    for m, (ax, sg) in enumerate(SPEC[dim]):
        want[ax] = org[ax] + sg * dims[m]
    ctx.ensure("opposite corner - origin == current signed dimensions", eq(list(img.opposite_corner), want))
    v = ctx.ints("v", dim, sample=(-3, 8))
    ctx.ensure("coordinate(v) == spec for the current metadata", eq(list(cs.coordinate(list(v))), spec_coordinate(dim, n, dims, org, v)))
    th = ctx.reals("th", dim, sample=(0.0, 1.0))
    for t in th:
        ctx.assume(and_(t > 0, t < 1))
    ctx.ensure("voxel(coordinate(v + theta)) == v for the current metadata", eq(list(cs.voxel(cs.coordinate(np.array([v[m] + th[m] for m in range(dim)])))), list(v)))


@ob("C01.dtypes", kind="B", cases=product_cases(dim=(1, 2, 3), dtype=("uint8", "uint16", "uint32", "uint64", "int8", "int32", "float32")), funcs=FUNCS, samples=(3, 8), tol=1e-6,
    cite="one voxel step along a matrix axis moves the coordinate by exactly one voxel size ... for single points, batches ...",
    note="bounded: the numeric dtype of a voxel / coordinate array is invisible to the symbolic model (object arrays).  Voxel indices handed over as unsigned / narrow integers or float32 "
         "must map like the same indices as int64 / float64 (after seed C01_g: negation of an unsigned index column wraps around)")
def c01_dtypes(ctx, dim, dtype):
    n = [ctx.int(f"n{k}", lo=2, hi=9) for k in range(dim)]
    d = [ctx.real(f"d{k}", pos=True, sample=(0.5, 4.0)) for k in range(dim)]
    o = [ctx.real(f"o{k}", sample=(-3.0, 3.0)) for k in range(dim)]
    img = darsia.Image(np.zeros(n), space_dim=dim, scalar=True, dimensions=list(d), origin=list(o))
    cs = img.coordinatesystem
    lo = 0 if dtype.startswith("u") else -3
    V = np.array([[ctx.int(f"v{r}_{m}", lo=lo, hi=n[m] + 2) for m in range(dim)] for r in range(3)])
    ref = np.asarray(cs.coordinate(V.astype(np.int64)), dtype=float)
    got = np.asarray(cs.coordinate(V.astype(dtype)), dtype=float)
    ctx.ensure(f"coordinate(voxels as {dtype}) == coordinate(the same voxels as int64)", eq(got, ref))
    ctx.ensure(f"single point as {dtype}", eq(np.asarray(cs.coordinate(V[0].astype(dtype)), dtype=float), ref[0]))
    refv = np.asarray(cs.coordinate_vector(V.astype(np.int64)), dtype=float)
    ctx.ensure(f"coordinate_vector(voxels as {dtype}) == coordinate_vector(int64)", eq(np.asarray(cs.coordinate_vector(V.astype(dtype)), dtype=float), refv))
    if dtype == "float32":
        # voxel centres as float32 coordinates still fall into their voxel (well inside: float32 rounding is far below half a voxel here)
        Vc = np.asarray(cs.voxel((np.asarray(cs.coordinate(darsia.VoxelCenterArray(V + 0.5)), dtype=float)).astype(np.float32)), dtype=int)
        ctx.ensure("voxel(centre coordinates as float32) == the voxel", bool(np.array_equal(Vc, V)))


@ob("C01.two_systems", cases=product_cases(dim=(1, 2, 3)), mods=MODS, funcs=FUNCS,
    cite="For every image (1 to 3 spatial dimensions, any shape, physical dimensions and origin) ... one voxel step along a matrix axis moves the coordinate by exactly one voxel size",
    note="a coordinate system that is HELD while coordinate systems of OTHER images are created (other shape, size, origin) still describes its own image - no table shared between "
         "CoordinateSystem objects (after seed C01_i: per-instance dictionary replaced by a class-level one)")
def c01_two_systems(ctx, dim):
    img, n, d, o = build_image(ctx, dim, "scalar", True)
    cs = img.coordinatesystem                                  # held
    other, n2, d2, o2 = build_image(ctx, dim, "scalar", True, tag="B")
    cs_other = other.coordinatesystem                          # created afterwards, for another image
    other.opposite_corner
    v = ctx.ints("v", dim, sample=(-3, 8))
    ctx.ensure("held system: coordinate(v) == spec of ITS image", eq(list(cs.coordinate(list(v))), spec_coordinate(dim, n, list(d), list(o), v)))
    ctx.ensure("later system: coordinate(v) == spec of its image", eq(list(cs_other.coordinate(list(v))), spec_coordinate(dim, n2, list(d2), list(o2), v)))
    th = ctx.reals("th", dim, sample=(0.0, 1.0))
    for t in th:
        ctx.assume(and_(t > 0, t < 1))
    ctx.ensure("held system: voxel(coordinate(v + theta)) == v", eq(list(cs.voxel(cs.coordinate(np.array([v[m] + th[m] for m in range(dim)])))), list(v)))
    for m in range(dim):
        ctx.ensure(f"held system: voxel size of Cartesian axis for matrix axis {m} is its image's", eq(cs.voxel_size["xyz"[SPEC[dim][m][0]]], d[m] / n[m]))



@ob("C01.large_batch", kind="B", cases=[dict(dim=2, n=65537), dict(dim=2, n=(1 << 20) + 391040), dict(dim=3, n=(1 << 20) + 1), dict(dim=1, n=(1 << 21) + 7)], funcs=FUNCS, samples=(1, 1), tol=1e-9,
    cite="a voxel index maps to origin plus voxel index times voxel size ... for single points, batches and the typed point classes",
    note="bounded, vectorised: batches around and above 2^16 / 2^20 rows (nothing in the symbolic obligations depends on the batch length, which is 1-3 there): every row of the "
         "batch equals the single-point conversion formula, the round trip through voxel() returns the indices (after seed C01_m: block-wise conversion dropping the remainder)")
def c01_large_batch(ctx, dim, n):
    rng = np.random.default_rng(ctx.rng.randrange(1 << 30))
    shape = [int(x) for x in rng.integers(3, 40, dim)]
    d = [float(x) for x in rng.uniform(0.5, 4.0, dim)]
    o = [float(x) for x in rng.uniform(-3.0, 3.0, dim)]
    img = darsia.Image(np.zeros(shape), space_dim=dim, scalar=True, dimensions=list(d), origin=list(o))
    cs = img.coordinatesystem
    vox = rng.integers(-5, 45, (n, dim))
    got = np.asarray(cs.coordinate(vox), dtype=float)
    want = np.empty((n, dim))
    for m, (ax, sg) in enumerate(SPEC[dim]):
        want[:, ax] = o[ax] + sg * vox[:, m] * (d[m] / shape[m])
    ctx.ensure(f"every one of the {n} rows == origin + sign * voxel * voxel size", got.shape == (n, dim) and bool(np.allclose(got, want, rtol=1e-12, atol=1e-9)))
    rows = [0, n // 2, n - 1, n - 2, (1 << 20) % n, ((1 << 20) + 1) % n]
    ctx.ensure("rows of the batch == single-point conversion", all(bool(np.allclose(np.asarray(cs.coordinate(vox[r]), dtype=float), got[r], rtol=1e-12, atol=1e-9)) for r in rows))
    centres = np.asarray(cs.coordinate(vox + 0.5), dtype=float)
    back = np.asarray(cs.voxel(centres))
    ctx.ensure("voxel(coordinate(v + 1/2)) == v for every row", back.shape == (n, dim) and bool(np.array_equal(back, vox)))
    ctx.tick()
